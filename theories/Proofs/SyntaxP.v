(* Escapes and numerals survive the round trip through the converter's decoders;
   an accepted block is consumed to its very end; numbers are exact. *)
From SP Require Import Model.Syntax Model.Scanner Proofs.PegP Proofs.StrP.
From Coq Require Import Decimal DecimalN DecimalPos.
Local Open Scope N_scope.

(* ---- process_arg (esc s) = s, for EVERY string --------------------------------- *)
Lemma consts_escapes : process_arg_escapes = [(110, 10); (116, 9); (114, 13)] /\ process_arg_by_chars = true.
Proof. split; reflexivity. Qed.

Lemma unescape_special c :
  (N.eqb c 58 || N.eqb c 124 || N.eqb c 123 || N.eqb c 125 || N.eqb c 92)%bool = true -> unescape c = c.
Proof.
  intros H. unfold unescape. destruct consts_escapes as [-> _]. cbn [find fst snd].
  repeat rewrite orb_true_iff in H. repeat rewrite N.eqb_eq in H.
  destruct H as [[[[->| ->]| ->]| ->]| ->]; reflexivity.
Qed.

Lemma process_arg_go_bs d s : process_arg_go (92 :: d :: s) = unescape d :: process_arg_go s.
Proof. reflexivity. Qed.
Lemma process_arg_go_plain c s : N.eqb c 92 = false -> process_arg_go (c :: s) = c :: process_arg_go s.
Proof. intros H. cbn [process_arg_go]. rewrite H. reflexivity. Qed.
Lemma unescape_ntr : unescape 110 = 10 /\ unescape 116 = 9 /\ unescape 114 = 13.
Proof. unfold unescape. destruct consts_escapes as [-> _]. repeat split; reflexivity. Qed.

Lemma process_arg_go_esc s : process_arg_go (esc s) = s.
Proof.
  induction s as [|c s IH]; [reflexivity|]. unfold esc in *. cbn [flat_map]. unfold esc_cp at 1.
  destruct unescape_ntr as (Un & Ut & Ur).
  destruct (N.eqb c 58 || N.eqb c 124 || N.eqb c 123 || N.eqb c 125 || N.eqb c 92)%bool eqn:Esp.
  - change (process_arg_go (92 :: c :: flat_map esc_cp s) = c :: s). rewrite process_arg_go_bs, (unescape_special c Esp), IH. reflexivity.
  - repeat rewrite orb_false_iff in Esp. destruct Esp as [[[[E1 E2] E3] E4] E5].
    destruct (N.eqb_spec c 10) as [->|Hn]; [change (process_arg_go (92 :: 110 :: flat_map esc_cp s) = 10 :: s); rewrite process_arg_go_bs, Un, IH; reflexivity|].
    destruct (N.eqb_spec c 9) as [->|Ht]; [change (process_arg_go (92 :: 116 :: flat_map esc_cp s) = 9 :: s); rewrite process_arg_go_bs, Ut, IH; reflexivity|].
    destruct (N.eqb_spec c 13) as [->|Hr]; [change (process_arg_go (92 :: 114 :: flat_map esc_cp s) = 13 :: s); rewrite process_arg_go_bs, Ur, IH; reflexivity|].
    change (process_arg_go (c :: flat_map esc_cp s) = c :: s). rewrite (process_arg_go_plain c _ E5), IH. reflexivity.
Qed.

Lemma process_arg_go_no_bslash s : existsb (N.eqb 92) s = false -> process_arg_go s = s.
Proof.
  induction s as [|c s IH]; [reflexivity|]. cbn [existsb process_arg_go]. intros H.
  apply orb_false_iff in H as [H1 H2]. rewrite N.eqb_sym in H1. rewrite H1, (IH H2). reflexivity.
Qed.

(* C11 core: any text, written with the documented escapes, is decoded to exactly that text *)
Theorem process_arg_esc (s : str) : process_arg (esc s) = s.
Proof.
  unfold process_arg. destruct consts_escapes as [_ ->].
  destruct (existsb (N.eqb 92) (esc s)) eqn:E; cbn [negb].
  - apply process_arg_go_esc.
  - rewrite <- (process_arg_go_esc s) at 2. symmetry. apply process_arg_go_no_bslash. exact E.
Qed.

(* the escaped text contains no unescaped special character: every special is
   preceded by the backslash that escapes it *)
Fixpoint no_raw_special (s : str) : bool :=
  match s with
  | [] => true
  | c :: s' =>
      if N.eqb c 92 then match s' with [] => false | _ :: s'' => no_raw_special s'' end
      else negb (N.eqb c 58 || N.eqb c 124 || N.eqb c 123 || N.eqb c 125)%bool && no_raw_special s'
  end.
Lemma nrs_bs d s : no_raw_special (92 :: d :: s) = no_raw_special s.
Proof. reflexivity. Qed.
Lemma nrs_plain c s : N.eqb c 92 = false ->
  no_raw_special (c :: s) = (negb (N.eqb c 58 || N.eqb c 124 || N.eqb c 123 || N.eqb c 125)%bool && no_raw_special s)%bool.
Proof. intros H. cbn [no_raw_special]. rewrite H. reflexivity. Qed.

Theorem esc_no_raw_special s : no_raw_special (esc s) = true.
Proof.
  induction s as [|c s IH]; [reflexivity|]. unfold esc in *. cbn [flat_map]. unfold esc_cp at 1.
  destruct (N.eqb c 58 || N.eqb c 124 || N.eqb c 123 || N.eqb c 125 || N.eqb c 92)%bool eqn:Esp.
  - change (no_raw_special (92 :: c :: flat_map esc_cp s) = true). rewrite nrs_bs. exact IH.
  - repeat rewrite orb_false_iff in Esp. destruct Esp as [[[[E1 E2] E3] E4] E5].
    destruct (N.eqb_spec c 10) as [->|Hn]; [change (no_raw_special (92 :: 110 :: flat_map esc_cp s) = true); rewrite nrs_bs; exact IH|].
    destruct (N.eqb_spec c 9) as [->|Ht]; [change (no_raw_special (92 :: 116 :: flat_map esc_cp s) = true); rewrite nrs_bs; exact IH|].
    destruct (N.eqb_spec c 13) as [->|Hr]; [change (no_raw_special (92 :: 114 :: flat_map esc_cp s) = true); rewrite nrs_bs; exact IH|].
    change (no_raw_special (c :: flat_map esc_cp s) = true). rewrite (nrs_plain c _ E5), E1, E2, E3, E4, IH. reflexivity.
Qed.

(* ---- numerals ------------------------------------------------------------------ *)
Lemma pd_cons c d s acc : digit_val c = Some d -> parse_digits (c :: s) acc = parse_digits s (acc * 10 + d).
Proof. intros H. cbn [parse_digits]. rewrite H. reflexivity. Qed.

Ltac pd_step IHd k dv p :=
  rewrite (pd_cons k dv) by reflexivity;
  match goal with |- parse_digits _ ?a = _ => replace a with (Npos p) by lia end; apply IHd.

Lemma parse_digits_acc d : forall acc,
  parse_digits (uint_cps d) (Npos acc) = Some (Npos (Pos.of_uint_acc d acc)).
Proof.
  induction d; intros acc; cbn [uint_cps Pos.of_uint_acc]; [reflexivity| ..].
  - pd_step IHd 48 0 (Pos.mul 10 acc).
  - pd_step IHd 49 1 (Pos.add 1 (Pos.mul 10 acc)).
  - pd_step IHd 50 2 (Pos.add 2 (Pos.mul 10 acc)).
  - pd_step IHd 51 3 (Pos.add 3 (Pos.mul 10 acc)).
  - pd_step IHd 52 4 (Pos.add 4 (Pos.mul 10 acc)).
  - pd_step IHd 53 5 (Pos.add 5 (Pos.mul 10 acc)).
  - pd_step IHd 54 6 (Pos.add 6 (Pos.mul 10 acc)).
  - pd_step IHd 55 7 (Pos.add 7 (Pos.mul 10 acc)).
  - pd_step IHd 56 8 (Pos.add 8 (Pos.mul 10 acc)).
  - pd_step IHd 57 9 (Pos.add 9 (Pos.mul 10 acc)).
Qed.

Lemma parse_digits_of_uint d : parse_digits (uint_cps d) 0 = Some (Pos.of_uint d).
Proof.
  induction d; cbn [uint_cps Pos.of_uint]; [reflexivity| ..].
  - rewrite (pd_cons 48 0) by reflexivity. exact IHd.
  - rewrite (pd_cons 49 1) by reflexivity. apply (parse_digits_acc d 1).
  - rewrite (pd_cons 50 2) by reflexivity. apply (parse_digits_acc d 2).
  - rewrite (pd_cons 51 3) by reflexivity. apply (parse_digits_acc d 3).
  - rewrite (pd_cons 52 4) by reflexivity. apply (parse_digits_acc d 4).
  - rewrite (pd_cons 53 5) by reflexivity. apply (parse_digits_acc d 5).
  - rewrite (pd_cons 54 6) by reflexivity. apply (parse_digits_acc d 6).
  - rewrite (pd_cons 55 7) by reflexivity. apply (parse_digits_acc d 7).
  - rewrite (pd_cons 56 8) by reflexivity. apply (parse_digits_acc d 8).
  - rewrite (pd_cons 57 9) by reflexivity. apply (parse_digits_acc d 9).
Qed.

Lemma uint_cps_nonnil d : d <> Nil -> uint_cps d <> [].
Proof. destruct d; cbn; congruence. Qed.

Lemma N_to_uint_nonnil n : N.to_uint n <> Nil.
Proof. destruct n; cbn; [discriminate | apply Unsigned.to_uint_nonnil]. Qed.

Theorem parse_unsigned_print n : parse_unsigned (print_N n) = Some n.
Proof.
  unfold parse_unsigned, print_N. pose proof (uint_cps_nonnil _ (N_to_uint_nonnil n)) as Hne.
  destruct (uint_cps (N.to_uint n)) eqn:E; [congruence|]. rewrite <- E.
  rewrite parse_digits_of_uint. f_equal. change (Pos.of_uint (N.to_uint n)) with (N.of_uint (N.to_uint n)).
  apply DecimalN.Unsigned.of_to.
Qed.

Lemma print_N_head n : exists c s, print_N n = c :: s /\ 48 <= c <= 57.
Proof.
  unfold print_N. pose proof (N_to_uint_nonnil n) as H. destruct (N.to_uint n); [congruence| ..];
    eexists; eexists; (split; [reflexivity | lia]).
Qed.

(* every isize / usize value, printed in decimal, is read back exactly *)
Theorem parse_isize_print z : in_isize z = true -> parse_isize (print_Z z) = Some z.
Proof.
  intros Hin. unfold print_Z. destruct (Z.ltb_spec z 0) as [Hneg|Hpos].
  - unfold parse_isize. rewrite N.eqb_refl. unfold signed_in_range. rewrite parse_unsigned_print.
    cbn zeta. replace (Z.opp (Z.of_N (Z.to_N (- z)))) with z by lia. rewrite Hin. reflexivity.
  - unfold parse_isize. destruct (print_N_head (Z.to_N z)) as (c & s & Hs & Hc). rewrite Hs.
    destruct (N.eqb_spec c 45) as [->|Hne]; [lia|]. rewrite <- Hs.
    unfold signed_in_range. rewrite parse_unsigned_print. cbn zeta.
    replace (Z.of_N (Z.to_N z)) with z by lia. rewrite Hin. reflexivity.
Qed.

Theorem parse_usize_print n : n <= usize_max -> parse_usize (print_N n) = Some n.
Proof.
  intros H. unfold parse_usize. rewrite parse_unsigned_print.
  destruct (N.leb_spec n usize_max); [reflexivity | lia].
Qed.

(* ... and a value outside the machine range is refused, whatever it is *)
Theorem parse_isize_print_gen z : parse_isize (print_Z z) = if in_isize z then Some z else None.
Proof.
  unfold print_Z. destruct (Z.ltb_spec z 0) as [Hneg|Hpos].
  - unfold parse_isize. rewrite N.eqb_refl. unfold signed_in_range. rewrite parse_unsigned_print.
    cbn zeta. replace (Z.opp (Z.of_N (Z.to_N (- z)))) with z by lia. reflexivity.
  - unfold parse_isize. destruct (print_N_head (Z.to_N z)) as (c & s & Hs & Hc). rewrite Hs.
    destruct (N.eqb_spec c 45) as [->|Hne]; [lia|]. rewrite <- Hs.
    unfold signed_in_range. rewrite parse_unsigned_print. cbn zeta.
    replace (Z.of_N (Z.to_N z)) with z by lia. reflexivity.
Qed.
Theorem parse_usize_print_gen n : parse_usize (print_N n) = if N.leb n usize_max then Some n else None.
Proof. unfold parse_usize. rewrite parse_unsigned_print. reflexivity. Qed.

(* numbers are exact: a numeral is accepted only if it consists of digits and its
   value (computed left to right) is the returned number, in range *)
Fixpoint digits_value (s : str) (acc : N) : N :=
  match s with
  | [] => acc
  | c :: s' => digits_value s' (acc * 10 + (c - 48))
  end.
Lemma parse_digits_exact s : forall acc n, parse_digits s acc = Some n ->
  n = digits_value s acc /\ forallb (fun c => N.leb 48 c && N.leb c 57)%bool s = true.
Proof.
  induction s as [|c s IH]; intros acc n H; cbn [parse_digits digits_value forallb] in *.
  - injection H as <-. auto.
  - unfold digit_val in H. destruct (N.leb 48 c && N.leb c 57)%bool eqn:E; [|discriminate].
    destruct (IH _ _ H) as [-> Hall]. rewrite Hall. auto.
Qed.

Theorem parse_isize_in_range s z : parse_isize s = Some z -> in_isize z = true.
Proof.
  unfold parse_isize. destruct s as [|c r]; [discriminate|].
  assert (G: forall neg ds, signed_in_range neg ds = Some z -> in_isize z = true).
  { intros neg ds. unfold signed_in_range. destruct (parse_unsigned ds); [|discriminate]. cbn zeta.
    destruct (in_isize _) eqn:E; [intros H0; injection H0 as <-; exact E | discriminate]. }
  destruct (N.eqb c 45); apply G.
Qed.

Theorem parse_usize_in_range s n : parse_usize s = Some n -> n <= usize_max.
Proof.
  unfold parse_usize. destruct (parse_unsigned s); [|discriminate].
  destruct (N.leb_spec n0 usize_max); [intros H0; injection H0 as <-; assumption | discriminate].
Qed.

(* ---- an accepted block is consumed to its very end ------------------------------ *)
Lemma grammar_anchored : ends_eoi r_template = true.
Proof. vm_compute. reflexivity. Qed.

Theorem no_trailing_text s ops d :
  parse_template s = Ok (ops, d) -> exists kids, run r_template false s = Some (s, kids, []).
Proof.
  unfold parse_template. destruct (run r_template false s) as [[[t kids] r]|] eqn:E; [|discriminate].
  intros _. pose proof (ends_eoi_sound r_template grammar_anchored _ _ _ _ _ E) as ->.
  pose proof (run_text r_template _ _ _ _ _ E) as Ht. rewrite app_nil_r in Ht. subst t. eauto.
Qed.

(* map inside map is never produced *)
Theorem no_map_in_map (t : ptree) o : parse_map_inner_operation t = Ok o -> forall b, o <> Map b.
Proof.
  unfold parse_map_inner_operation. intros H b ->.
  destruct (t_rule t) as [id|]; [|discriminate].
  destruct id; try discriminate;
    repeat match type of H with
           | omap _ ?m = _ => destruct m; cbn [omap] in H
           | _ => idtac
           end; try discriminate;
    unfold parse_replace, parse_pad_operation, parse_regex_extract_operation, parse_split_like in H;
    repeat match type of H with
           | bind ?m _ = _ => destruct m; cbn [bind] in H
           | match ?m with _ => _ end = _ => destruct m
           end; discriminate.
Qed.
