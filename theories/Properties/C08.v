(* C08 -- map applies its sub-pipeline to each item independently, in order.
   GENERATED from Properties/src/C08.props by tools/mkprops.py; property theorems only. *)
From SP Require Import Model.Impl Model.Spec.
From SP Require Import Proofs.ImplSpec Proofs.MapSepP Proofs.MapLawsP Proofs.Toy.

(* the i-th output is exactly what the sub-pipeline, run as a standalone pipeline
   (fresh " " separator, a list result rendered with its own separator), yields
   on the i-th item alone; the outer separator is untouched; first error wins *)
Theorem C08_map_is_per_item :
  forall (E : Env) (body : list op) (l : list str) (sep : str),
  spec_step E (Map body) (VList l) sep =
    omap (fun l' => (VList l', sep)) (mapM (fun item => spec_run E body item) l).
Proof. exact map_is_mapM. Qed.
Check C08_map_is_per_item :
  forall (E : Env) (body : list op) (l : list str) (sep : str),
  spec_step E (Map body) (VList l) sep =
    omap (fun l' => (VList l', sep)) (mapM (fun item => spec_run E body item) l).
Print Assumptions C08_map_is_per_item.

Theorem C08_same_length :
  forall (A B : Type) (f : A -> outcome B) (l : list A) (l' : list B),
  mapM f l = Ok l' -> length l' = length l.
Proof. exact @mapM_length. Qed.
Check C08_same_length :
  forall (A B : Type) (f : A -> outcome B) (l : list A) (l' : list B),
  mapM f l = Ok l' -> length l' = length l.
Print Assumptions C08_same_length.

Theorem C08_ith_item :
  forall (A B : Type) (f : A -> outcome B) (l : list A) (l' : list B),
  mapM f l = Ok l' ->
  forall i x, nth_error l i = Some x -> exists y, nth_error l' i = Some y /\ f x = Ok y.
Proof. exact @mapM_nth. Qed.
Check C08_ith_item :
  forall (A B : Type) (f : A -> outcome B) (l : list A) (l' : list B),
  mapM f l = Ok l' ->
  forall i x, nth_error l i = Some x -> exists y, nth_error l' i = Some y /\ f x = Ok y.
Print Assumptions C08_ith_item.

Theorem C08_first_error_fails_the_call :
  forall (A B : Type) (f : A -> outcome B) (l1 : list A) (x : A) (l2 : list A),
  (forall y, In y l1 -> exists b, f y = Ok b) -> f x = Err -> mapM f (l1 ++ x :: l2) = Err.
Proof. exact @mapM_first_error. Qed.
Check C08_first_error_fails_the_call :
  forall (A B : Type) (f : A -> outcome B) (l1 : list A) (x : A) (l2 : list A),
  (forall y, In y l1 -> exists b, f y = Ok b) -> f x = Err -> mapM f (l1 ++ x :: l2) = Err.
Print Assumptions C08_first_error_fails_the_call.

(* map succeeds with l' exactly when l' is, item by item, what the sub-pipeline yields *)
Theorem C08_success_characterised :
  forall (A B : Type) (f : A -> outcome B) (l : list A) (l' : list B),
  mapM f l = Ok l' <-> Forall2 (fun x y => f x = Ok y) l l'.
Proof. exact @mapM_ok_iff. Qed.
Check C08_success_characterised :
  forall (A B : Type) (f : A -> outcome B) (l : list A) (l' : list B),
  mapM f l = Ok l' <-> Forall2 (fun x y => f x = Ok y) l l'.
Print Assumptions C08_success_characterised.

(* the result depends on the sub-pipeline's behaviour on the items alone *)
Theorem C08_item_alone_decides :
  forall (A B : Type) (f g : A -> outcome B) (l : list A),
  (forall x, In x l -> f x = g x) -> mapM f l = mapM g l.
Proof. exact @mapM_ext_in. Qed.
Check C08_item_alone_decides :
  forall (A B : Type) (f g : A -> outcome B) (l : list A),
  (forall x, In x l -> f x = g x) -> mapM f l = mapM g l.
Print Assumptions C08_item_alone_decides.

Theorem C08_neighbours_do_not_matter :
  forall (A B : Type) (f : A -> outcome B) (l1 l2 : list A),
  mapM f (l1 ++ l2) = bind (mapM f l1) (fun a => bind (mapM f l2) (fun b => Ok (a ++ b))).
Proof. exact @mapM_app. Qed.
Check C08_neighbours_do_not_matter :
  forall (A B : Type) (f : A -> outcome B) (l1 l2 : list A),
  mapM f (l1 ++ l2) = bind (mapM f l1) (fun a => bind (mapM f l2) (fun b => Ok (a ++ b))).
Print Assumptions C08_neighbours_do_not_matter.

Theorem C08_position_does_not_matter :
  forall (A B : Type) (f : A -> outcome B) (l : list A) (l' : list B),
  mapM f l = Ok l' -> mapM f (rev l) = Ok (rev l').
Proof. exact @mapM_rev_ok. Qed.
Check C08_position_does_not_matter :
  forall (A B : Type) (f : A -> outcome B) (l : list A) (l' : list B),
  mapM f l = Ok l' -> mapM f (rev l) = Ok (rev l').
Print Assumptions C08_position_does_not_matter.

(* two maps in a row, the first of which succeeds, are one map of the composition *)
Theorem C08_two_maps_fuse :
  forall (A B C : Type) (f : A -> outcome B) (g : B -> outcome C) (l : list A) (l' : list B),
  mapM f l = Ok l' -> mapM g l' = mapM (fun x => bind (f x) g) l.
Proof. exact @mapM_fuse. Qed.
Check C08_two_maps_fuse :
  forall (A B C : Type) (f : A -> outcome B) (g : B -> outcome C) (l : list A) (l' : list B),
  mapM f l = Ok l' -> mapM g l' = mapM (fun x => bind (f x) g) l.
Print Assumptions C08_two_maps_fuse.

Theorem C08_no_panic_from_map :
  forall (A B : Type) (f : A -> outcome B) (l : list A),
  (forall x, In x l -> f x <> Panic) -> mapM f l <> Panic.
Proof. exact @mapM_no_panic. Qed.
Check C08_no_panic_from_map :
  forall (A B : Type) (f : A -> outcome B) (l : list A),
  (forall x, In x l -> f x <> Panic) -> mapM f l <> Panic.
Print Assumptions C08_no_panic_from_map.

Theorem C08_empty_list :
  forall (E : Env) (body : list op) (sep : str), spec_step E (Map body) (VList []) sep = Ok (VList [], sep).
Proof. exact map_nil. Qed.
Check C08_empty_list :
  forall (E : Env) (body : list op) (sep : str), spec_step E (Map body) (VList []) sep = Ok (VList [], sep).
Print Assumptions C08_empty_list.

Theorem C08_needs_a_list :
  forall (E : Env) (body : list op) (s sep : str), spec_step E (Map body) (VStr s) sep = Err.
Proof. exact map_on_string_fails. Qed.
Check C08_needs_a_list :
  forall (E : Env) (body : list op) (s sep : str), spec_step E (Map body) (VStr s) sep = Err.
Print Assumptions C08_needs_a_list.

(* the code's per-item recursion (shared caches, tracer) computes exactly that *)
Theorem C08_code_does_this :
  forall (E : Env), L1 replace_meta E ->
  forall (dbg : bool) (o : op) (v : value) (sep : str),
    run_pure (impl_step E dbg o v sep) = spec_step E o v sep.
Proof. exact impl_step_refines. Qed.
Check C08_code_does_this :
  forall (E : Env), L1 replace_meta E ->
  forall (dbg : bool) (o : op) (v : value) (sep : str),
    run_pure (impl_step E dbg o v sep) = spec_step E o v sep.
Print Assumptions C08_code_does_this.

Example C08_ex :
  spec_step toy_env (Map [Split [32%N] (Range None None false); Join [45%N]]) (VList [[97; 32; 98]; []; [99]]%N) [44%N]
  = Ok (VList [[97; 45; 98]; []; [99]]%N, [44%N]).
Proof. vm_compute. reflexivity. Qed.
