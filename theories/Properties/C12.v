(* C12 -- text that is not a well-formed template is rejected at parse time.
   GENERATED from Properties/src/C12.props by tools/mkprops.py; property theorems only. *)
From SP Require Import Model.Syntax Model.Scanner.
From SP Require Import Proofs.PegP Proofs.SyntaxP Proofs.ParseP.
From SP Require Import Proofs.NumP Proofs.RangeSynP Proofs.OpSynP Proofs.BlockSynP Proofs.RejectP.
From SP Require Import Proofs.FirstP Proofs.NamesP Proofs.ArityP.

(* an accepted block is consumed to its very end: nothing is left unparsed *)
Theorem C12_no_trailing_text :
  forall (s : str) (ops : list op) (d : bool),
  parse_template s = Ok (ops, d) -> exists kids, run r_template false s = Some (s, kids, []).
Proof. exact no_trailing_text. Qed.
Check C12_no_trailing_text :
  forall (s : str) (ops : list op) (d : bool),
  parse_template s = Ok (ops, d) -> exists kids, run r_template false s = Some (s, kids, []).
Print Assumptions C12_no_trailing_text.

(* re-evaluated on the regenerated grammar on every run *)
Theorem C12_grammar_is_anchored :
  ends_eoi r_template = true.
Proof. exact grammar_anchored. Qed.
Check C12_grammar_is_anchored :
  ends_eoi r_template = true.
Print Assumptions C12_grammar_is_anchored.

Theorem C12_consumed_text_is_a_prefix :
  forall (rule : Type) (e : peg rule) (a : bool) (inp t : str) (k : list (tree rule)) (r : str),
  run e a inp = Some (t, k, r) -> inp = t ++ r.
Proof. exact @run_text. Qed.
Check C12_consumed_text_is_a_prefix :
  forall (rule : Type) (e : peg rule) (a : bool) (inp t : str) (k : list (tree rule)) (r : str),
  run e a inp = Some (t, k, r) -> inp = t ++ r.
Print Assumptions C12_consumed_text_is_a_prefix.

(* a numeric argument is never silently replaced: the converter either returns
   the value of the digits, which fits the machine type, or fails *)
Theorem C12_numbers_in_range_isize :
  forall (s : str) (z : Z), parse_isize s = Some z -> in_isize z = true.
Proof. exact parse_isize_in_range. Qed.
Check C12_numbers_in_range_isize :
  forall (s : str) (z : Z), parse_isize s = Some z -> in_isize z = true.
Print Assumptions C12_numbers_in_range_isize.

Theorem C12_numbers_in_range_usize :
  forall (s : str) (n : N), parse_usize s = Some n -> (n <= usize_max)%N.
Proof. exact parse_usize_in_range. Qed.
Check C12_numbers_in_range_usize :
  forall (s : str) (n : N), parse_usize s = Some n -> (n <= usize_max)%N.
Print Assumptions C12_numbers_in_range_usize.

Theorem C12_numbers_exact :
  forall (s : str) (acc n : N), parse_digits s acc = Some n ->
  n = digits_value s acc /\ forallb (fun c => N.leb 48 c && N.leb c 57)%bool s = true.
Proof. exact parse_digits_exact. Qed.
Check C12_numbers_exact :
  forall (s : str) (acc n : N), parse_digits s acc = Some n ->
  n = digits_value s acc /\ forallb (fun c => N.leb 48 c && N.leb c 57)%bool s = true.
Print Assumptions C12_numbers_exact.

Theorem C12_no_map_in_map :
  forall (t : ptree) (o : op), parse_map_inner_operation t = Ok o -> forall b, o <> Map b.
Proof. exact no_map_in_map. Qed.
Check C12_no_map_in_map :
  forall (t : ptree) (o : op), parse_map_inner_operation t = Ok o -> forall b, o <> Map b.
Print Assumptions C12_no_map_in_map.

Theorem C12_tree_shape :
  all_rules chk r_template = true.
Proof. exact grammar_checked. Qed.
Check C12_tree_shape :
  all_rules chk r_template = true.
Print Assumptions C12_tree_shape.

Example C12_ex :
  template_parse [123; 102; 105; 108; 116; 101; 114; 58; 91; 123; 93; 124; 117; 112; 112; 101; 114; 125; 125]%N = Err
  /\ template_parse [123; 115; 112; 108; 105; 116; 58; 44; 58; 57; 57; 57; 57; 57; 57; 57; 57; 57; 57; 57; 57; 57; 57; 57; 57; 57; 57; 57; 57; 46; 46; 125]%N = Err
  /\ template_parse [123; 117; 112; 112; 101; 114; 124; 125]%N = Err
  /\ template_parse [123; 110; 111; 112; 101; 125]%N = Err
  /\ template_parse [123; 117; 112; 112; 101; 114]%N = Err.
Proof. vm_compute. repeat split. Qed.

(* EVERY integer, however large: its decimal spelling is read as that integer when it fits
   isize and refused otherwise -- never replaced by another value *)
Theorem C12_numeral_outside_isize_is_refused :
  forall (z : Z), parse_isize (print_Z z) = if in_isize z then Some z else None.
Proof. exact parse_isize_print_gen. Qed.
Check C12_numeral_outside_isize_is_refused :
  forall (z : Z), parse_isize (print_Z z) = if in_isize z then Some z else None.
Print Assumptions C12_numeral_outside_isize_is_refused.

Theorem C12_numeral_outside_usize_is_refused :
  forall (n : N), parse_usize (print_N n) = if N.leb n usize_max then Some n else None.
Proof. exact parse_usize_print_gen. Qed.
Check C12_numeral_outside_usize_is_refused :
  forall (n : N), parse_usize (print_N n) = if N.leb n usize_max then Some n else None.
Print Assumptions C12_numeral_outside_usize_is_refused.

(* every range shape with ANY integer bounds: the grammar reads it, and the converter answers
   the range when all bounds fit and a parse error otherwise (conv_range) *)
Theorem C12_range_with_a_bound_out_of_range_is_refused :
  forall (r : range) (rest : str), op_stops rest ->
  exists k, run r_range_spec false (print_range r ++ rest) = Some (print_range r, [k], rest)
            /\ parse_range_spec k = conv_range r.
Proof. exact range_spec_reads. Qed.
Check C12_range_with_a_bound_out_of_range_is_refused :
  forall (r : range) (rest : str), op_stops rest ->
  exists k, run r_range_spec false (print_range r ++ rest) = Some (print_range r, [k], rest)
            /\ parse_range_spec k = conv_range r.
Print Assumptions C12_range_with_a_bound_out_of_range_is_refused.

(* for ANY pipeline of the regex-free operations (map included), any arguments and ANY
   numbers: the printed block is accepted exactly when every index, bound and width is inside
   the machine range, and then as exactly that pipeline; otherwise it is a parse error *)
Theorem C12_block_accepted_iff_numbers_in_range :
  forall (dbg : bool) (ops : list op), forallb shape_top ops = true ->
  parse_template (123 :: (if dbg then [33] else []) ++ print_pipe print_op ops ++ [125])%N
  = if forallb printable ops then Ok (ops, dbg) else Err.
Proof. exact printed_block_accepted_iff_in_range. Qed.
Check C12_block_accepted_iff_numbers_in_range :
  forall (dbg : bool) (ops : list op), forallb shape_top ops = true ->
  parse_template (123 :: (if dbg then [33] else []) ++ print_pipe print_op ops ++ [125])%N
  = if forallb printable ops then Ok (ops, dbg) else Err.
Print Assumptions C12_block_accepted_iff_numbers_in_range.

(* empty pipeline segments, for ALL continuations w: "{|w" and "{!|w" *)
Theorem C12_leading_pipe_is_refused :
  forall (dbg : bool) (w : str), parse_template (123 :: (if dbg then [33] else []) ++ 124 :: w)%N = Err.
Proof. exact leading_pipe_rejected. Qed.
Check C12_leading_pipe_is_refused :
  forall (dbg : bool) (w : str), parse_template (123 :: (if dbg then [33] else []) ++ 124 :: w)%N = Err.
Print Assumptions C12_leading_pipe_is_refused.

(* after ANY pipeline in ANY regex-free spelling, a "|" that is not followed by an operation:
   "a|b|}" , "a||b...", "a|#..." -- whatever comes after *)
Theorem C12_pipe_not_followed_by_an_operation_is_refused :
  forall (dbg : bool) (items : list (op * str)) (T : str),
  items <> [] -> all_spelled spells items -> run r_operation false T = None ->
  parse_template (123 :: (if dbg then [33] else []) ++ pipe_text (texts items) ++ 124 :: T)%N = Err.
Proof. exact dangling_pipe_rejected. Qed.
Check C12_pipe_not_followed_by_an_operation_is_refused :
  forall (dbg : bool) (items : list (op * str)) (T : str),
  items <> [] -> all_spelled spells items -> run r_operation false T = None ->
  parse_template (123 :: (if dbg then [33] else []) ++ pipe_text (texts items) ++ 124 :: T)%N = Err.
Print Assumptions C12_pipe_not_followed_by_an_operation_is_refused.

Theorem C12_trailing_pipe_is_refused :
  forall (dbg : bool) (items : list (op * str)), items <> [] -> all_spelled spells items ->
  parse_template (123 :: (if dbg then [33] else []) ++ pipe_text (texts items) ++ [124; 125])%N = Err.
Proof. exact trailing_pipe_rejected. Qed.
Check C12_trailing_pipe_is_refused :
  forall (dbg : bool) (items : list (op * str)), items <> [] -> all_spelled spells items ->
  parse_template (123 :: (if dbg then [33] else []) ++ pipe_text (texts items) ++ [124; 125])%N = Err.
Print Assumptions C12_trailing_pipe_is_refused.

Theorem C12_double_pipe_is_refused :
  forall (dbg : bool) (items : list (op * str)) (w : str), items <> [] -> all_spelled spells items ->
  parse_template (123 :: (if dbg then [33] else []) ++ pipe_text (texts items) ++ 124 :: 124 :: w)%N = Err.
Proof. exact double_pipe_rejected. Qed.
Check C12_double_pipe_is_refused :
  forall (dbg : bool) (items : list (op * str)) (w : str), items <> [] -> all_spelled spells items ->
  parse_template (123 :: (if dbg then [33] else []) ++ pipe_text (texts items) ++ 124 :: 124 :: w)%N = Err.
Print Assumptions C12_double_pipe_is_refused.

(* unbalanced braces: any text whose own braces balance, after an opening brace that is never
   closed, is a parse error of the template constructor (both scanners) *)
Theorem C12_unclosed_block_is_refused :
  forall (w : str), neutral w -> template_parse (123 :: w)%N = Err.
Proof. exact unclosed_block_rejected. Qed.
Check C12_unclosed_block_is_refused :
  forall (w : str), neutral w -> template_parse (123 :: w)%N = Err.
Print Assumptions C12_unclosed_block_is_refused.

Theorem C12_unclosed_spelled_block_is_refused :
  forall (dbg : bool) (items : list (op * str)), all_spelled spells items ->
  template_parse (123 :: (if dbg then [33] else []) ++ pipe_text (texts items))%N = Err.
Proof. exact unclosed_spelled_block_rejected. Qed.
Check C12_unclosed_spelled_block_is_refused :
  forall (dbg : bool) (items : list (op * str)), all_spelled spells items ->
  template_parse (123 :: (if dbg then [33] else []) ++ pipe_text (texts items))%N = Err.
Print Assumptions C12_unclosed_spelled_block_is_refused.

(* FirstP.starters computes, from the REGENERATED grammar, how every rule can begin; here it is
   compared with the documented table NamesP.op_begin on every rule occurrence: each operation
   rule begins with its own documented name and with nothing else, the shorthand with a numeral
   or a range *)
Theorem C12_operation_names_are_the_documented_ones :
  all_rules (chk_begin op_begin starter_eqb) r_template = true.
Proof. exact grammar_names_checked. Qed.
Check C12_operation_names_are_the_documented_ones :
  all_rules (chk_begin op_begin starter_eqb) r_template = true.
Print Assumptions C12_operation_names_are_the_documented_ones.

(* for ALL strings: whatever the grammar accepts, every node of the parse -- every operation at
   top level and inside map:{...}, at any depth -- carries a text that begins with the documented
   name of that operation (a numeral / range for the shorthand): no unknown name is ever read
   as an operation *)
Theorem C12_every_operation_begins_with_its_name :
  forall (s t r : str) (k : list ptree),
  run r_template false s = Some (t, k, r) -> Forall (every_node op_begins_right) k.
Proof. exact every_operation_begins_with_its_name. Qed.
Check C12_every_operation_begins_with_its_name :
  forall (s t r : str) (k : list ptree),
  run r_template false s = Some (t, k, r) -> Forall (every_node op_begins_right) k.
Print Assumptions C12_every_operation_begins_with_its_name.

(* ... and that text is the name followed by ":" for the operations that take arguments (a missing
   argument list is never accepted), by ":" or nothing for trim and sort, and by nothing at all for
   upper, lower, reverse, unique, strip_ansi (no surplus argument is ever part of such a node) *)
Theorem C12_every_operation_is_name_then_arguments :
  forall (s t r : str) (k : list ptree),
  run r_template false s = Some (t, k, r) -> Forall (every_node op_after_right) k.
Proof. exact every_operation_is_name_then_arguments. Qed.
Check C12_every_operation_is_name_then_arguments :
  forall (s t r : str) (k : list ptree),
  run r_template false s = Some (t, k, r) -> Forall (every_node op_after_right) k.
Print Assumptions C12_every_operation_is_name_then_arguments.

(* what the two predicates say, spelled out *)
Theorem C12_begins_right_means :
  forall (id : rule) (txt : str),
  (op_begins_right id txt <-> (forall l, op_begin id = Some l -> Exists (fun st => starts st txt) l)) /\
  (op_after_right id txt <-> (forall name mandatory l, op_after id = Some (name, mandatory, l) ->
      exists u, txt = name ++ u /\ ((u = [] /\ mandatory = false) \/ Exists (fun st => starts st u) l))).
Proof. exact op_begins_right_unfold. Qed.
Check C12_begins_right_means :
  forall (id : rule) (txt : str),
  (op_begins_right id txt <-> (forall l, op_begin id = Some l -> Exists (fun st => starts st txt) l)) /\
  (op_after_right id txt <-> (forall name mandatory l, op_after id = Some (name, mandatory, l) ->
      exists u, txt = name ++ u /\ ((u = [] /\ mandatory = false) \/ Exists (fun st => starts st u) l))).
Print Assumptions C12_begins_right_means.

(* "{" or "{!" followed by any text that is not empty, does not begin with "}" or "!" and does not
   begin with a documented operation name, a digit, "-" or "..": a parse error, whatever follows *)
Theorem C12_unknown_operation_is_refused :
  forall (dbg : bool) (c : N) (w : str),
  N.eqb 125 c = false -> N.eqb 33 c = false -> begins_like_operation (c :: w) = false ->
  parse_template (123%N :: (if dbg then [33%N] else []) ++ c :: w) = Err.
Proof. exact unknown_operation_rejected. Qed.
Check C12_unknown_operation_is_refused :
  forall (dbg : bool) (c : N) (w : str),
  N.eqb 125 c = false -> N.eqb 33 c = false -> begins_like_operation (c :: w) = false ->
  parse_template (123%N :: (if dbg then [33%N] else []) ++ c :: w) = Err.
Print Assumptions C12_unknown_operation_is_refused.

(* {bogus}, {Upper}, { upper}, {!uper|lower} meet the hypotheses *)
Theorem C12_unknown_operation_examples :
  parse_template [123; 98; 111; 103; 117; 115; 125]%N = Err /\
  parse_template [123; 85; 112; 112; 101; 114; 125]%N = Err /\
  parse_template [123; 32; 117; 112; 112; 101; 114; 125]%N = Err /\
  parse_template ([123; 33] ++ [117; 112; 101; 114; 124; 108; 111; 119; 101; 114; 125])%N = Err.
Proof. exact unknown_names_rejected. Qed.
Check C12_unknown_operation_examples :
  parse_template [123; 98; 111; 103; 117; 115; 125]%N = Err /\
  parse_template [123; 85; 112; 112; 101; 114; 125]%N = Err /\
  parse_template [123; 32; 117; 112; 112; 101; 114; 125]%N = Err /\
  parse_template ([123; 33] ++ [117; 112; 101; 114; 124; 108; 111; 119; 101; 114; 125])%N = Err.
Print Assumptions C12_unknown_operation_examples.

(* the fourteen argument-taking operations: the name followed by a character that is not ":" (nor "_",
   which continues filter to filter_not) is not an operation, whatever follows.  The alternatives
   that cannot match are discarded by the computed beginnings, so their order does not matter *)
Theorem C12_operation_without_its_arguments_is_not_read :
  forall (name : str) (c : N) (w : str),
  In name arg_names -> N.eqb 58 c = false -> N.eqb 95 c = false ->
  run r_operation false (name ++ c :: w) = None.
Proof. exact operation_without_arguments_fails. Qed.
Check C12_operation_without_its_arguments_is_not_read :
  forall (name : str) (c : N) (w : str),
  In name arg_names -> N.eqb 58 c = false -> N.eqb 95 c = false ->
  run r_operation false (name ++ c :: w) = None.
Print Assumptions C12_operation_without_its_arguments_is_not_read.

(* {join}, {split|...}, {append x}, {!pad}, ... *)
Theorem C12_missing_arguments_at_the_head_are_refused :
  forall (dbg : bool) (name : str) (c : N) (w : str),
  In name arg_names -> N.eqb 58 c = false -> N.eqb 95 c = false ->
  parse_template (123%N :: (if dbg then [33%N] else []) ++ name ++ c :: w) = Err.
Proof. exact missing_arguments_rejected_at_head. Qed.
Check C12_missing_arguments_at_the_head_are_refused :
  forall (dbg : bool) (name : str) (c : N) (w : str),
  In name arg_names -> N.eqb 58 c = false -> N.eqb 95 c = false ->
  parse_template (123%N :: (if dbg then [33%N] else []) ++ name ++ c :: w) = Err.
Print Assumptions C12_missing_arguments_at_the_head_are_refused.

(* after ANY pipeline in any regex-free spelling: a|b|join}, a|split|c, ... *)
Theorem C12_missing_arguments_after_a_pipeline_are_refused :
  forall (dbg : bool) (items : list item) (name : str) (c : N) (w : str),
  items <> [] -> all_spelled spells items ->
  In name arg_names -> N.eqb 58 c = false -> N.eqb 95 c = false ->
  parse_template (123%N :: (if dbg then [33%N] else []) ++ pipe_text (texts items) ++ 124%N :: name ++ c :: w) = Err.
Proof. exact missing_arguments_rejected_after_pipeline. Qed.
Check C12_missing_arguments_after_a_pipeline_are_refused :
  forall (dbg : bool) (items : list item) (name : str) (c : N) (w : str),
  items <> [] -> all_spelled spells items ->
  In name arg_names -> N.eqb 58 c = false -> N.eqb 95 c = false ->
  parse_template (123%N :: (if dbg then [33%N] else []) ++ pipe_text (texts items) ++ 124%N :: name ++ c :: w) = Err.
Print Assumptions C12_missing_arguments_after_a_pipeline_are_refused.

(* upper, lower, reverse, unique, strip_ansi followed by anything but "|" or "}": {upper:x}, {uppercase}, {!unique } *)
Theorem C12_surplus_after_an_argumentless_operation_is_refused_at_the_head :
  forall (dbg : bool) (name : str) (c : N) (w : str),
  In name bare_names -> N.eqb 124 c = false -> N.eqb 125 c = false ->
  parse_template (123%N :: (if dbg then [33%N] else []) ++ name ++ c :: w) = Err.
Proof. exact surplus_after_bare_operation_rejected_at_head. Qed.
Check C12_surplus_after_an_argumentless_operation_is_refused_at_the_head :
  forall (dbg : bool) (name : str) (c : N) (w : str),
  In name bare_names -> N.eqb 124 c = false -> N.eqb 125 c = false ->
  parse_template (123%N :: (if dbg then [33%N] else []) ++ name ++ c :: w) = Err.
Print Assumptions C12_surplus_after_an_argumentless_operation_is_refused_at_the_head.

(* a|b|upper:x}, a|unique z|c *)
Theorem C12_surplus_after_an_argumentless_operation_is_refused_after_a_pipeline :
  forall (dbg : bool) (items : list item) (o : op) (name : str) (c : N) (w : str),
  items <> [] -> all_spelled spells items -> In (o, name) bare_ops ->
  N.eqb 124 c = false -> N.eqb 125 c = false ->
  parse_template (123%N :: (if dbg then [33%N] else []) ++ pipe_text (texts items) ++ 124%N :: name ++ c :: w) = Err.
Proof. exact surplus_after_bare_operation_rejected_after_pipeline. Qed.
Check C12_surplus_after_an_argumentless_operation_is_refused_after_a_pipeline :
  forall (dbg : bool) (items : list item) (o : op) (name : str) (c : N) (w : str),
  items <> [] -> all_spelled spells items -> In (o, name) bare_ops ->
  N.eqb 124 c = false -> N.eqb 125 c = false ->
  parse_template (123%N :: (if dbg then [33%N] else []) ++ pipe_text (texts items) ++ 124%N :: name ++ c :: w) = Err.
Print Assumptions C12_surplus_after_an_argumentless_operation_is_refused_after_a_pipeline.

(* the two lists, spelled out *)
Theorem C12_which_names :
  arg_names = [kw_split; kw_join; kw_substring; kw_append; kw_prepend; kw_surround; kw_quote; kw_slice; kw_map; kw_pad;
             kw_replace; kw_filter; kw_filter_not; kw_regex_extract]
/\ bare_names = [kw_upper; kw_lower; kw_reverse; kw_unique; kw_strip_ansi]
/\ bare_ops = [(Upper, kw_upper); (Lower, kw_lower); (Reverse, kw_reverse); (Unique, kw_unique); (StripAnsi, kw_strip_ansi)].
Proof. exact arity_tables. Qed.
Check C12_which_names :
  arg_names = [kw_split; kw_join; kw_substring; kw_append; kw_prepend; kw_surround; kw_quote; kw_slice; kw_map; kw_pad;
             kw_replace; kw_filter; kw_filter_not; kw_regex_extract]
/\ bare_names = [kw_upper; kw_lower; kw_reverse; kw_unique; kw_strip_ansi]
/\ bare_ops = [(Upper, kw_upper); (Lower, kw_lower); (Reverse, kw_reverse); (Unique, kw_unique); (StripAnsi, kw_strip_ansi)].
Print Assumptions C12_which_names.

