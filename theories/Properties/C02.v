(* C02 -- a template means exactly what its text says (parse fidelity, all spellings).
   GENERATED from Properties/src/C02.props by tools/mkprops.py; property theorems only. *)
From SP Require Import Model.Syntax Model.Scanner.
From SP Require Import Proofs.PegP Proofs.SyntaxP Proofs.ParseP Proofs.TemplateLaws.
From SP Require Import Proofs.ArgP Proofs.NumP Proofs.RangeSynP Proofs.OpSynP Proofs.RegexSynP Proofs.BlockSynP Proofs.FullSynP.

(* every index and range bound, printed in decimal, is read back exactly *)
Theorem C02_numbers_roundtrip_isize :
  forall (z : Z), in_isize z = true -> parse_isize (print_Z z) = Some z.
Proof. exact parse_isize_print. Qed.
Check C02_numbers_roundtrip_isize :
  forall (z : Z), in_isize z = true -> parse_isize (print_Z z) = Some z.
Print Assumptions C02_numbers_roundtrip_isize.

Theorem C02_numbers_roundtrip_usize :
  forall (n : N), (n <= usize_max)%N -> parse_usize (print_N n) = Some n.
Proof. exact parse_usize_print. Qed.
Check C02_numbers_roundtrip_usize :
  forall (n : N), (n <= usize_max)%N -> parse_usize (print_N n) = Some n.
Print Assumptions C02_numbers_roundtrip_usize.

Theorem C02_text_arguments_roundtrip :
  forall (s : str), process_arg (esc s) = s.
Proof. exact process_arg_esc. Qed.
Check C02_text_arguments_roundtrip :
  forall (s : str), process_arg (esc s) = s.
Print Assumptions C02_text_arguments_roundtrip.

(* parsing is a function of the text; parsing the stored text again gives the same object *)
Theorem C02_meaning_depends_on_text_only :
  forall (s : str) (t : template), template_parse s = Ok t -> template_parse (template_string t) = Ok t.
Proof. exact reparse. Qed.
Check C02_meaning_depends_on_text_only :
  forall (s : str) (t : template), template_parse s = Ok t -> template_parse (template_string t) = Ok t.
Print Assumptions C02_meaning_depends_on_text_only.

Theorem C02_converter_total :
  forall (s : str), template_parse s <> Panic.
Proof. exact template_parse_total. Qed.
Check C02_converter_total :
  forall (s : str), template_parse s <> Panic.
Print Assumptions C02_converter_total.

(* the converter reads the right children: positions and rule ids of the children
   of every node it inspects are established by a verified static analysis of the
   regenerated grammar *)
Theorem C02_tree_shape :
  all_rules chk r_template = true.
Proof. exact grammar_checked. Qed.
Check C02_tree_shape :
  all_rules chk r_template = true.
Print Assumptions C02_tree_shape.

(* on the grammar regenerated from template.pest: rule `number` reads exactly the decimal
   spelling of ANY integer, whatever non-digit follows *)
Theorem C02_number_rule_reads_printed_numeral :
  forall (a : bool) (z : Z) (rest : str), no_digit_head rest ->
  run r_number a (print_Z z ++ rest) = Some (print_Z z, tok a R_number (print_Z z), rest).
Proof. exact run_number_print. Qed.
Check C02_number_rule_reads_printed_numeral :
  forall (a : bool) (z : Z) (rest : str), no_digit_head rest ->
  run r_number a (print_Z z ++ rest) = Some (print_Z z, tok a R_number (print_Z z), rest).
Print Assumptions C02_number_rule_reads_printed_numeral.

(* rule range_spec and the converter's parse_range_spec: each of the ten range shapes
   (N, .., ..=, A.., A..=, ..B, ..=B, A..B, A..=B) with ANY bounds in isize is read back as
   exactly that range -- bounds, open ends and inclusiveness *)
Theorem C02_every_range_form :
  forall (r : range) (rest : str), range_ok r = true -> op_stops rest ->
  exists k, run r_range_spec false (print_range r ++ rest) = Some (print_range r, [k], rest)
            /\ parse_range_spec k = Ok r.
Proof. exact range_spec_roundtrip. Qed.
Check C02_every_range_form :
  forall (r : range) (rest : str), range_ok r = true -> op_stops rest ->
  exists k, run r_range_spec false (print_range r ++ rest) = Some (print_range r, [k], rest)
            /\ parse_range_spec k = Ok r.
Print Assumptions C02_every_range_form.

(* the shorthand spellings {N} and {A..B}: for every range, rule operation reads the bare
   range as split on a space with that range *)
Theorem C02_shorthand_is_split_on_space :
  forall (r : range) (rest : str), range_ok r = true -> op_stops rest ->
  exists k, run r_operation false (print_range r ++ rest)
            = Some (print_range r, [Node (Some R_operation) (print_range r) [k]], rest)
            /\ parse_operation k = Ok (Split space_sep r).
Proof. exact shorthand_roundtrip. Qed.
Check C02_shorthand_is_split_on_space :
  forall (r : range) (rest : str), range_ok r = true -> op_stops rest ->
  exists k, run r_operation false (print_range r ++ rest)
            = Some (print_range r, [Node (Some R_operation) (print_range r) [k]], rest)
            /\ parse_operation k = Ok (Split space_sep r).
Print Assumptions C02_shorthand_is_split_on_space.

(* every spelling of every non-regex operation, in the rule family used inside map:{...} *)
Theorem C02_operation_inside_map :
  forall (o : op) (txt rest : str), spells_simple o txt -> op_stops rest ->
  exists k, run r_map_inner_operation false (txt ++ rest) = Some (txt, [Node (Some R_map_inner_operation) txt [k]], rest)
            /\ parse_map_inner_operation k = Ok o.
Proof. exact inner_reads_spelled. Qed.
Check C02_operation_inside_map :
  forall (o : op) (txt rest : str), spells_simple o txt -> op_stops rest ->
  exists k, run r_map_inner_operation false (txt ++ rest) = Some (txt, [Node (Some R_map_inner_operation) txt [k]], rest)
            /\ parse_map_inner_operation k = Ok o.
Print Assumptions C02_operation_inside_map.

(* ... and in the top-level rule family, where the shorthand and map:{...} are spellings too *)
Theorem C02_operation_at_top_level :
  forall (o : op) (txt rest : str), spells o txt -> op_stops rest ->
  exists k, run r_operation false (txt ++ rest) = Some (txt, [Node (Some R_operation) txt [k]], rest)
            /\ parse_operation k = Ok o.
Proof. exact operation_reads. Qed.
Check C02_operation_at_top_level :
  forall (o : op) (txt rest : str), spells o txt -> op_stops rest ->
  exists k, run r_operation false (txt ++ rest) = Some (txt, [Node (Some R_operation) txt [k]], rest)
            /\ parse_operation k = Ok o.
Print Assumptions C02_operation_at_top_level.

(* THE PARSE-FIDELITY THEOREM for the regex-free operations: take ANY pipeline, of any
   length, and for each operation ANY of its documented spellings (canonical, quote for
   surround, trim / trim:chars / trim:dir / trim:chars:dir, sort / sort:asc / sort:desc,
   pad:w / pad:w:c / pad:w:c:dir, shorthand {N} {A..B}, map:{...} over inner spellings), with
   ANY argument text written with the documented escapes, ANY range with bounds in isize and
   ANY width in usize, with or without the debug marker: the grammar regenerated from
   template.pest and the converter of parser.rs return exactly that pipeline -- same
   operations, same order, every argument unchanged -- and the debug flag exactly as written *)
Theorem C02_every_spelling_roundtrip :
  forall (dbg : bool) (items : list (op * str)), all_spelled spells items ->
  parse_template (block_text dbg items) = Ok (ops_of items, dbg).
Proof. exact spelled_block_roundtrip. Qed.
Check C02_every_spelling_roundtrip :
  forall (dbg : bool) (items : list (op * str)), all_spelled spells items ->
  parse_template (block_text dbg items) = Ok (ops_of items, dbg).
Print Assumptions C02_every_spelling_roundtrip.

(* ... and the template constructor (single-block shortcut of template.rs included) builds
   one section holding exactly those operations *)
Theorem C02_template_object_of_spelled_block :
  forall (dbg : bool) (items : list (op * str)), all_spelled spells items ->
  template_parse (block_text dbg items)
  = Ok {| t_raw := block_text dbg items; t_sections := [Sec (ops_of items)]; t_debug := dbg |}.
Proof. exact template_of_spelled_block. Qed.
Check C02_template_object_of_spelled_block :
  forall (dbg : bool) (items : list (op * str)), all_spelled spells items ->
  template_parse (block_text dbg items)
  = Ok {| t_raw := block_text dbg items; t_sections := [Sec (ops_of items)]; t_debug := dbg |}.
Print Assumptions C02_template_object_of_spelled_block.

(* two spellings of the same pipeline give the same sections *)
Theorem C02_spellings_agree :
  forall (dbg : bool) (items1 items2 : list (op * str)), all_spelled spells items1 -> all_spelled spells items2 ->
  ops_of items1 = ops_of items2 ->
  omap t_sections (template_parse (block_text dbg items1)) = omap t_sections (template_parse (block_text dbg items2)).
Proof. exact spellings_agree. Qed.
Check C02_spellings_agree :
  forall (dbg : bool) (items1 items2 : list (op * str)), all_spelled spells items1 -> all_spelled spells items2 ->
  ops_of items1 = ops_of items2 ->
  omap t_sections (template_parse (block_text dbg items1)) = omap t_sections (template_parse (block_text dbg items2)).
Print Assumptions C02_spellings_agree.

(* the canonical printer (Model/Syntax.v print_block, which the harness also feeds to the
   real parser on every run) is one of those spellings *)
Theorem C02_canonical_printer_roundtrip :
  forall (ops : list op), forallb printable ops = true -> parse_template (print_block ops) = Ok (ops, false).
Proof. exact block_roundtrip. Qed.
Check C02_canonical_printer_roundtrip :
  forall (ops : list op), forallb printable ops = true -> parse_template (print_block ops) = Ok (ops, false).
Print Assumptions C02_canonical_printer_roundtrip.

(* the meaning of the text: formatting the parsed template is running the printed operations
   under the documented semantics (Spec), for every input *)
Theorem C02_printed_text_means_its_operations :
  forall (E : Env), L1 replace_meta E -> forall (ops : list op) (x : str), forallb printable ops = true ->
  bind (template_parse (print_block ops)) (fun t => run_pure (impl_format E t x)) = spec_run E ops x.
Proof. exact printed_block_means_ops. Qed.
Check C02_printed_text_means_its_operations :
  forall (E : Env), L1 replace_meta E -> forall (ops : list op) (x : str), forallb printable ops = true ->
  bind (template_parse (print_block ops)) (fun t => run_pure (impl_format E t x)) = spec_run E ops x.
Print Assumptions C02_printed_text_means_its_operations.

(* replace, filter, filter_not, regex_extract: their arguments are RAW text.  For every pattern
   made of escaped pairs and characters other than : | { } (regex_units), every s/../../ part
   without a bare / (sed_units), every flag word and every group number in usize, followed by
   what the grammar's look-aheads require (ctx_top), rule operation and the converter return
   the operation with pattern, replacement, flags and group unchanged *)
Theorem C02_regex_operations_at_top_level :
  forall (o : op) (txt rest : str), spells_regex o txt -> ctx_top o rest ->
  exists k, run r_operation false (txt ++ rest) = Some (txt, [Node (Some R_operation) txt [k]], rest)
            /\ parse_operation k = Ok o.
Proof. exact operation_reads_regex. Qed.
Check C02_regex_operations_at_top_level :
  forall (o : op) (txt rest : str), spells_regex o txt -> ctx_top o rest ->
  exists k, run r_operation false (txt ++ rest) = Some (txt, [Node (Some R_operation) txt [k]], rest)
            /\ parse_operation k = Ok o.
Print Assumptions C02_regex_operations_at_top_level.

Theorem C02_regex_operations_inside_map :
  forall (o : op) (txt rest : str), spells_regex o txt -> ctx_map o rest ->
  exists k, run r_map_inner_operation false (txt ++ rest) = Some (txt, [Node (Some R_map_inner_operation) txt [k]], rest)
            /\ parse_map_inner_operation k = Ok o.
Proof. exact inner_reads_regex. Qed.
Check C02_regex_operations_inside_map :
  forall (o : op) (txt rest : str), spells_regex o txt -> ctx_map o rest ->
  exists k, run r_map_inner_operation false (txt ++ rest) = Some (txt, [Node (Some R_map_inner_operation) txt [k]], rest)
            /\ parse_map_inner_operation k = Ok o.
Print Assumptions C02_regex_operations_inside_map.

(* PARSE FIDELITY FOR ALL TWENTY OPERATIONS.  A pipeline is any list of (operation, text) in
   which each text is a documented way of writing the operation ([written]: every spelling of
   the text/range operations, text arguments with redundant escapes, the four regex operations,
   the shorthand, map:{...} over inner spellings).  The one interaction between neighbours is stated, not hidden: a bare regex
   argument ends at "|" only when an operation keyword follows ([followers_ok]), so the next
   operation is not written in the digit shorthand.  Then the grammar regenerated from
   template.pest and the converter of parser.rs return exactly the pipeline written, with the
   debug flag exactly as written. *)
Theorem C02_all_operations_all_spellings :
  forall (dbg : bool) (items : list (op * str)),
  Forall (fun it => written (fst it) (snd it)) items -> followers_ok items ->
  parse_template (block_text dbg items) = Ok (ops_of items, dbg).
Proof. exact written_block_roundtrip. Qed.
Check C02_all_operations_all_spellings :
  forall (dbg : bool) (items : list (op * str)),
  Forall (fun it => written (fst it) (snd it)) items -> followers_ok items ->
  parse_template (block_text dbg items) = Ok (ops_of items, dbg).
Print Assumptions C02_all_operations_all_spellings.

(* ... and the template constructor builds one section with exactly those operations (braces
   inside s/../../ parts must balance for the single-block shortcut: balanced_item) *)
Theorem C02_all_operations_template_object :
  forall (dbg : bool) (items : list (op * str)),
  Forall (fun it => written (fst it) (snd it)) items -> followers_ok items -> Forall balanced_item items ->
  template_parse (block_text dbg items)
  = Ok {| t_raw := block_text dbg items; t_sections := [Sec (ops_of items)]; t_debug := dbg |}.
Proof. exact template_of_written_block. Qed.
Check C02_all_operations_template_object :
  forall (dbg : bool) (items : list (op * str)),
  Forall (fun it => written (fst it) (snd it)) items -> followers_ok items -> Forall balanced_item items ->
  template_parse (block_text dbg items)
  = Ok {| t_raw := block_text dbg items; t_sections := [Sec (ops_of items)]; t_debug := dbg |}.
Print Assumptions C02_all_operations_template_object.

(* non-vacuity: a pipeline mixing spellings satisfies the premises *)
Check spelled_example.
Check written_example.

(* the spellings of the documentation, evaluated by the kernel on the regenerated grammar *)
Definition cps (l : list N) : str := l.
Example C02_ex_spellings :
  (* {1..3} == {split: :1..3} *)
  omap t_sections (template_parse [123; 49; 46; 46; 51; 125]%N)
    = omap t_sections (template_parse [123; 115; 112; 108; 105; 116; 58; 32; 58; 49; 46; 46; 51; 125]%N)
  /\ omap t_sections (template_parse [123; 49; 46; 46; 51; 125]%N) = Ok [Sec [Split [32%N] (Range (Some 1%Z) (Some 3%Z) false)]]
  (* {quote:'} == {surround:'} *)
  /\ omap t_sections (template_parse [123; 113; 117; 111; 116; 101; 58; 39; 125]%N)
    = omap t_sections (template_parse [123; 115; 117; 114; 114; 111; 117; 110; 100; 58; 39; 125]%N)
  (* {trim} == {trim:both}; {sort} == {sort:asc}; {pad:5} == {pad:5: :right} *)
  /\ omap t_sections (template_parse [123; 116; 114; 105; 109; 125]%N)
    = omap t_sections (template_parse [123; 116; 114; 105; 109; 58; 98; 111; 116; 104; 125]%N)
  /\ omap t_sections (template_parse [123; 112; 97; 100; 58; 53; 125]%N)
    = omap t_sections (template_parse [123; 112; 97; 100; 58; 53; 58; 32; 58; 114; 105; 103; 104; 116; 125]%N)
  (* {trim:\n}: the set is the newline character *)
  /\ omap t_sections (template_parse [123; 116; 114; 105; 109; 58; 92; 110; 125]%N) = Ok [Sec [Trim [10%N] TBoth]]
  (* upper inside and outside map *)
  /\ omap t_sections (template_parse [123; 115; 112; 108; 105; 116; 58; 44; 58; 46; 46; 124; 109; 97; 112; 58; 123; 117; 112; 112; 101; 114; 125; 125]%N)
    = Ok [Sec [Split [44%N] (Range None None false); Map [Upper]]].
Proof. vm_compute. repeat split. Qed.
