(* C02 -- a template means exactly what its text says (parse fidelity, all spellings).
   GENERATED from Properties/src/C02.props by tools/mkprops.py; property theorems only. *)
From SP Require Import Model.Syntax Model.Scanner.
From SP Require Import Proofs.PegP Proofs.SyntaxP Proofs.ParseP Proofs.TemplateLaws.

(* every index and range bound, printed in decimal, is read back exactly *)
Theorem C02_numbers_roundtrip_isize :
  forall (z : Z), in_isize z = true -> parse_isize (print_Z z) = Some z.
Proof. exact parse_isize_print. Qed.
Check C02_numbers_roundtrip_isize :
  forall (z : Z), in_isize z = true -> parse_isize (print_Z z) = Some z.
Print Assumptions C02_numbers_roundtrip_isize.

Theorem C02_numbers_roundtrip_usize :
  forall (n : N), (n <= usize_max)%N -> parse_usize (print_N n) = Some n.
Proof. exact parse_usize_print. Qed.
Check C02_numbers_roundtrip_usize :
  forall (n : N), (n <= usize_max)%N -> parse_usize (print_N n) = Some n.
Print Assumptions C02_numbers_roundtrip_usize.

Theorem C02_text_arguments_roundtrip :
  forall (s : str), process_arg (esc s) = s.
Proof. exact process_arg_esc. Qed.
Check C02_text_arguments_roundtrip :
  forall (s : str), process_arg (esc s) = s.
Print Assumptions C02_text_arguments_roundtrip.

(* parsing is a function of the text; parsing the stored text again gives the same object *)
Theorem C02_meaning_depends_on_text_only :
  forall (s : str) (t : template), template_parse s = Ok t -> template_parse (template_string t) = Ok t.
Proof. exact reparse. Qed.
Check C02_meaning_depends_on_text_only :
  forall (s : str) (t : template), template_parse s = Ok t -> template_parse (template_string t) = Ok t.
Print Assumptions C02_meaning_depends_on_text_only.

Theorem C02_converter_total :
  forall (s : str), template_parse s <> Panic.
Proof. exact template_parse_total. Qed.
Check C02_converter_total :
  forall (s : str), template_parse s <> Panic.
Print Assumptions C02_converter_total.

(* the converter reads the right children: positions and rule ids of the children
   of every node it inspects are established by a verified static analysis of the
   regenerated grammar *)
Theorem C02_tree_shape :
  all_rules chk r_template = true.
Proof. exact grammar_checked. Qed.
Check C02_tree_shape :
  all_rules chk r_template = true.
Print Assumptions C02_tree_shape.

(* the spellings of the documentation, evaluated by the kernel on the regenerated grammar *)
Definition cps (l : list N) : str := l.
Example C02_ex_spellings :
  (* {1..3} == {split: :1..3} *)
  omap t_sections (template_parse [123; 49; 46; 46; 51; 125]%N)
    = omap t_sections (template_parse [123; 115; 112; 108; 105; 116; 58; 32; 58; 49; 46; 46; 51; 125]%N)
  /\ omap t_sections (template_parse [123; 49; 46; 46; 51; 125]%N) = Ok [Sec [Split [32%N] (Range (Some 1%Z) (Some 3%Z) false)]]
  (* {quote:'} == {surround:'} *)
  /\ omap t_sections (template_parse [123; 113; 117; 111; 116; 101; 58; 39; 125]%N)
    = omap t_sections (template_parse [123; 115; 117; 114; 114; 111; 117; 110; 100; 58; 39; 125]%N)
  (* {trim} == {trim:both}; {sort} == {sort:asc}; {pad:5} == {pad:5: :right} *)
  /\ omap t_sections (template_parse [123; 116; 114; 105; 109; 125]%N)
    = omap t_sections (template_parse [123; 116; 114; 105; 109; 58; 98; 111; 116; 104; 125]%N)
  /\ omap t_sections (template_parse [123; 112; 97; 100; 58; 53; 125]%N)
    = omap t_sections (template_parse [123; 112; 97; 100; 58; 53; 58; 32; 58; 114; 105; 103; 104; 116; 125]%N)
  (* {trim:\n}: the set is the newline character *)
  /\ omap t_sections (template_parse [123; 116; 114; 105; 109; 58; 92; 110; 125]%N) = Ok [Sec [Trim [10%N] TBoth]]
  (* upper inside and outside map *)
  /\ omap t_sections (template_parse [123; 115; 112; 108; 105; 116; 58; 44; 58; 46; 46; 124; 109; 97; 112; 58; 123; 117; 112; 112; 101; 114; 125; 125]%N)
    = Ok [Sec [Split [44%N] (Range None None false); Map [Upper]]].
Proof. vm_compute. repeat split. Qed.
