(* C13 -- the CLI prints exactly the library result, with faithful exit codes.
   GENERATED from Properties/src/C13.props by tools/mkprops.py; property theorems only.
   Model/Cli.v models main.rs after clap (argv parsing, the OS pipe and process
   start-up are exercised by the correspondence run, not modelled). *)
From SP Require Import Model.Cli.
From SP Require Import Proofs.CliP.

(* the library's result goes to stdout, nothing added and nothing removed; exit 0 *)
Theorem C13_ok :
  forall (E : Env), L1 replace_meta E ->
  forall (cfg : cli_config) (tpl input r : str),
    cli_validate cfg = false -> get_template cfg = Some tpl -> get_input cfg = Some input ->
    lib_result E tpl input = Ok r ->
    cli_stdout (cli_main E cfg) = r /\ cli_exit (cli_main E cfg) = 0%N.
Proof. exact cli_ok. Qed.
Check C13_ok :
  forall (E : Env), L1 replace_meta E ->
  forall (cfg : cli_config) (tpl input r : str),
    cli_validate cfg = false -> get_template cfg = Some tpl -> get_input cfg = Some input ->
    lib_result E tpl input = Ok r ->
    cli_stdout (cli_main E cfg) = r /\ cli_exit (cli_main E cfg) = 0%N.
Print Assumptions C13_ok.

(* parse or processing error: nothing on stdout, a message on stderr, exit 1 *)
Theorem C13_err :
  forall (E : Env), L1 replace_meta E ->
  forall (cfg : cli_config) (tpl input : str),
    cli_validate cfg = false -> get_template cfg = Some tpl -> get_input cfg = Some input ->
    lib_result E tpl input = Err ->
    cli_stdout (cli_main E cfg) = [] /\ cli_stderr (cli_main E cfg) <> StderrEmpty /\ cli_exit (cli_main E cfg) = 1%N.
Proof. exact cli_err. Qed.
Check C13_err :
  forall (E : Env), L1 replace_meta E ->
  forall (cfg : cli_config) (tpl input : str),
    cli_validate cfg = false -> get_template cfg = Some tpl -> get_input cfg = Some input ->
    lib_result E tpl input = Err ->
    cli_stdout (cli_main E cfg) = [] /\ cli_stderr (cli_main E cfg) <> StderrEmpty /\ cli_exit (cli_main E cfg) = 1%N.
Print Assumptions C13_err.

Theorem C13_never_crashes :
  forall (E : Env), L1 replace_meta E -> forall (cfg : cli_config), cli_exit (cli_main E cfg) <> 101%N.
Proof. exact cli_never_crashes. Qed.
Check C13_never_crashes :
  forall (E : Env), L1 replace_meta E -> forall (cfg : cli_config), cli_exit (cli_main E cfg) <> 101%N.
Print Assumptions C13_never_crashes.

(* stdin == file == argument with trailing whitespace removed *)
Theorem C13_input_routes :
  forall (E : Env) (cfg : cli_config) (x : str),
  cli_input_both cfg = false ->
  let with_input i s := {| cli_template := cli_template cfg; cli_template_both := cli_template_both cfg;
                           cli_input := i; cli_input_both := false; cli_stdin := s;
                           cli_debug := cli_debug cfg; cli_quiet := cli_quiet cfg; cli_validate := cli_validate cfg |} in
  cli_main E (with_input Absent x) = cli_main E (with_input (FromFile (Some x)) (cli_stdin cfg))
  /\ cli_main E (with_input Absent x) = cli_main E (with_input (FromArg (trim_end_ws x)) (cli_stdin cfg)).
Proof. exact cli_input_routes. Qed.
Check C13_input_routes :
  forall (E : Env) (cfg : cli_config) (x : str),
  cli_input_both cfg = false ->
  let with_input i s := {| cli_template := cli_template cfg; cli_template_both := cli_template_both cfg;
                           cli_input := i; cli_input_both := false; cli_stdin := s;
                           cli_debug := cli_debug cfg; cli_quiet := cli_quiet cfg; cli_validate := cli_validate cfg |} in
  cli_main E (with_input Absent x) = cli_main E (with_input (FromFile (Some x)) (cli_stdin cfg))
  /\ cli_main E (with_input Absent x) = cli_main E (with_input (FromArg (trim_end_ws x)) (cli_stdin cfg)).
Print Assumptions C13_input_routes.

Theorem C13_template_file :
  forall (E : Env) (cfg : cli_config) (content : str),
  cli_template_both cfg = false ->
  let with_tpl t := {| cli_template := t; cli_template_both := false;
                       cli_input := cli_input cfg; cli_input_both := cli_input_both cfg; cli_stdin := cli_stdin cfg;
                       cli_debug := cli_debug cfg; cli_quiet := cli_quiet cfg; cli_validate := cli_validate cfg |} in
  cli_main E (with_tpl (FromFile (Some content))) = cli_main E (with_tpl (FromArg (trim_ws content))).
Proof. exact cli_template_file. Qed.
Check C13_template_file :
  forall (E : Env) (cfg : cli_config) (content : str),
  cli_template_both cfg = false ->
  let with_tpl t := {| cli_template := t; cli_template_both := false;
                       cli_input := cli_input cfg; cli_input_both := cli_input_both cfg; cli_stdin := cli_stdin cfg;
                       cli_debug := cli_debug cfg; cli_quiet := cli_quiet cfg; cli_validate := cli_validate cfg |} in
  cli_main E (with_tpl (FromFile (Some content))) = cli_main E (with_tpl (FromArg (trim_ws content))).
Print Assumptions C13_template_file.

Theorem C13_validate_iff_parse :
  forall (E : Env) (cfg : cli_config) (tpl : str),
  cli_validate cfg = true -> get_template cfg = Some tpl ->
  (cli_exit (cli_main E cfg) = 0%N <-> exists t, template_parse_with_debug tpl None = Ok t).
Proof. exact cli_validate_iff_parse. Qed.
Check C13_validate_iff_parse :
  forall (E : Env) (cfg : cli_config) (tpl : str),
  cli_validate cfg = true -> get_template cfg = Some tpl ->
  (cli_exit (cli_main E cfg) = 0%N <-> exists t, template_parse_with_debug tpl None = Ok t).
Print Assumptions C13_validate_iff_parse.

Theorem C13_quiet_no_debug :
  forall (E : Env) (cfg : cli_config), cli_quiet cfg = true -> cli_stderr (cli_main E cfg) <> StderrDebug.
Proof. exact cli_quiet_no_debug. Qed.
Check C13_quiet_no_debug :
  forall (E : Env) (cfg : cli_config), cli_quiet cfg = true -> cli_stderr (cli_main E cfg) <> StderrDebug.
Print Assumptions C13_quiet_no_debug.

Theorem C13_debug_flag_changes_stderr_only :
  forall (E : Env), L1 replace_meta E ->
  forall (cfg : cli_config) (d : bool),
    let cfg' := {| cli_template := cli_template cfg; cli_template_both := cli_template_both cfg;
                   cli_input := cli_input cfg; cli_input_both := cli_input_both cfg; cli_stdin := cli_stdin cfg;
                   cli_debug := d; cli_quiet := cli_quiet cfg; cli_validate := cli_validate cfg |} in
    cli_stdout (cli_main E cfg') = cli_stdout (cli_main E cfg) /\ cli_exit (cli_main E cfg') = cli_exit (cli_main E cfg).
Proof. exact cli_debug_transparent. Qed.
Check C13_debug_flag_changes_stderr_only :
  forall (E : Env), L1 replace_meta E ->
  forall (cfg : cli_config) (d : bool),
    let cfg' := {| cli_template := cli_template cfg; cli_template_both := cli_template_both cfg;
                   cli_input := cli_input cfg; cli_input_both := cli_input_both cfg; cli_stdin := cli_stdin cfg;
                   cli_debug := d; cli_quiet := cli_quiet cfg; cli_validate := cli_validate cfg |} in
    cli_stdout (cli_main E cfg') = cli_stdout (cli_main E cfg) /\ cli_exit (cli_main E cfg') = cli_exit (cli_main E cfg).
Print Assumptions C13_debug_flag_changes_stderr_only.

