(* C16 -- character-level operations work on whole Unicode characters.
   GENERATED from Properties/src/C16.props by tools/mkprops.py; property theorems only. *)
From SP Require Import Model.Impl Model.Spec.
From SP Require Import Proofs.ImplSpec Proofs.CharOps Proofs.IdemP Proofs.PadTrimP Proofs.RangeP.

(* exactly the requested width in characters, never truncating *)
Theorem C16_pad_reaches_width :
  forall (w c : N) (d : pdir) (s : str),
  N.of_nat (length (pad_str w c d s)) = N.max w (N.of_nat (length s)).
Proof. exact pad_length. Qed.
Check C16_pad_reaches_width :
  forall (w c : N) (d : pdir) (s : str),
  N.of_nat (length (pad_str w c d s)) = N.max w (N.of_nat (length s)).
Print Assumptions C16_pad_reaches_width.

(* the text sits untouched inside; padding on the requested side(s); for both,
   left = floor(n/2) *)
Theorem C16_pad_shape :
  forall (w c : N) (d : pdir) (s : str),
  exists l r, pad_str w c d s = repeat_cp c l ++ s ++ repeat_cp c r /\
    N.of_nat (l + r) = (N.max w (N.of_nat (length s)) - N.of_nat (length s))%N /\
    match d with PLeft => r = 0%nat | PRight => l = 0%nat | PBoth => l = ((l + r) / 2)%nat end.
Proof. exact pad_shape. Qed.
Check C16_pad_shape :
  forall (w c : N) (d : pdir) (s : str),
  exists l r, pad_str w c d s = repeat_cp c l ++ s ++ repeat_cp c r /\
    N.of_nat (l + r) = (N.max w (N.of_nat (length s)) - N.of_nat (length s))%N /\
    match d with PLeft => r = 0%nat | PRight => l = 0%nat | PBoth => l = ((l + r) / 2)%nat end.
Print Assumptions C16_pad_shape.

(* trim removes only leading / trailing characters of the set, from the requested
   side(s), and stops at the first character outside the set *)
Theorem C16_trim_shape :
  forall (f : N -> bool) (d : tdir) (s : str),
  exists p q, s = p ++ trim_with f d s ++ q /\ forallb f p = true /\ forallb f q = true /\
    (d = TRight -> p = []) /\ (d = TLeft -> q = []) /\
    (d <> TRight -> match trim_with f d s with [] => True | c :: _ => f c = false end) /\
    (d <> TLeft -> match rev (trim_with f d s) with [] => True | c :: _ => f c = false end).
Proof. exact trim_shape. Qed.
Check C16_trim_shape :
  forall (f : N -> bool) (d : tdir) (s : str),
  exists p q, s = p ++ trim_with f d s ++ q /\ forallb f p = true /\ forallb f q = true /\
    (d = TRight -> p = []) /\ (d = TLeft -> q = []) /\
    (d <> TRight -> match trim_with f d s with [] => True | c :: _ => f c = false end) /\
    (d <> TLeft -> match rev (trim_with f d s) with [] => True | c :: _ => f c = false end).
Print Assumptions C16_trim_shape.

Theorem C16_trim_is_left_then_right :
  forall (f : N -> bool) (s : str), trim_with f TBoth s = trim_with f TRight (trim_with f TLeft s).
Proof. exact trim_both_is_left_then_right. Qed.
Check C16_trim_is_left_then_right :
  forall (f : N -> bool) (s : str), trim_with f TBoth s = trim_with f TRight (trim_with f TLeft s).
Print Assumptions C16_trim_is_left_then_right.

Theorem C16_blank_set_is_whitespace :
  forall (chars : str), forallb is_ws chars = true -> trim_pred chars = is_ws.
Proof. exact trim_blank_set_is_whitespace. Qed.
Check C16_blank_set_is_whitespace :
  forall (chars : str), forallb is_ws chars = true -> trim_pred chars = is_ws.
Print Assumptions C16_blank_set_is_whitespace.

Theorem C16_custom_set :
  forall (chars : str) (c : N), forallb is_ws chars = false -> trim_pred chars c = mem_cp c chars.
Proof. exact trim_custom_set. Qed.
Check C16_custom_set :
  forall (chars : str) (c : N), forallb is_ws chars = false -> trim_pred chars c = mem_cp c chars.
Print Assumptions C16_custom_set.

(* trimming what is already trimmed changes nothing, for every set and side *)
Theorem C16_trim_idempotent :
  forall (f : N -> bool) (d : tdir) (s : str), trim_with f d (trim_with f d s) = trim_with f d s.
Proof. exact trim_idempotent. Qed.
Check C16_trim_idempotent :
  forall (f : N -> bool) (d : tdir) (s : str), trim_with f d (trim_with f d s) = trim_with f d s.
Print Assumptions C16_trim_idempotent.

(* a text whose first and last characters are outside the set is returned as it is *)
Theorem C16_trim_leaves_clean_text :
  forall (f : N -> bool) (d : tdir) (s : str),
  match s with [] => True | c :: _ => f c = false end ->
  match rev s with [] => True | c :: _ => f c = false end ->
  trim_with f d s = s.
Proof. exact trim_fixed. Qed.
Check C16_trim_leaves_clean_text :
  forall (f : N -> bool) (d : tdir) (s : str),
  match s with [] => True | c :: _ => f c = false end ->
  match rev s with [] => True | c :: _ => f c = false end ->
  trim_with f d s = s.
Print Assumptions C16_trim_leaves_clean_text.

(* padding what already has the width changes nothing *)
Theorem C16_pad_idempotent :
  forall (w c : N) (d : pdir) (s : str), pad_str w c d (pad_str w c d s) = pad_str w c d s.
Proof. exact pad_idempotent. Qed.
Check C16_pad_idempotent :
  forall (w c : N) (d : pdir) (s : str), pad_str w c d (pad_str w c d s) = pad_str w c d s.
Print Assumptions C16_pad_idempotent.

Theorem C16_pad_wide_enough :
  forall (w c : N) (d : pdir) (s : str), (w <= N.of_nat (length s))%N -> pad_str w c d s = s.
Proof. exact pad_wide_enough. Qed.
Check C16_pad_wide_enough :
  forall (w c : N) (d : pdir) (s : str), (w <= N.of_nat (length s))%N -> pad_str w c d s = s.
Print Assumptions C16_pad_wide_enough.

(* trimming a set that contains the pad character off a padded text gives the text
   back, when the text neither begins nor ends with a character of the set (the side
   condition is needed: trim_undoes_pad_needs_clean_ends) *)
Theorem C16_trim_undoes_pad :
  forall (f : N -> bool) (w c : N) (d : pdir) (s : str),
  f c = true ->
  match s with [] => True | x :: _ => f x = false end ->
  match rev s with [] => True | x :: _ => f x = false end ->
  trim_with f TBoth (pad_str w c d s) = s.
Proof. exact trim_undoes_pad. Qed.
Check C16_trim_undoes_pad :
  forall (f : N -> bool) (w c : N) (d : pdir) (s : str),
  f c = true ->
  match s with [] => True | x :: _ => f x = false end ->
  match rev s with [] => True | x :: _ => f x = false end ->
  trim_with f TBoth (pad_str w c d s) = s.
Print Assumptions C16_trim_undoes_pad.

Theorem C16_trim_op_undoes_pad_op :
  forall (w c : N) (d : pdir) (s : str),
  is_ws c = false ->
  match s with [] => True | x :: _ => N.eqb x c = false end ->
  match rev s with [] => True | x :: _ => N.eqb x c = false end ->
  trim_with (trim_pred [c]) TBoth (pad_str w c d s) = s.
Proof. exact trim_op_undoes_pad_op. Qed.
Check C16_trim_op_undoes_pad_op :
  forall (w c : N) (d : pdir) (s : str),
  is_ws c = false ->
  match s with [] => True | x :: _ => N.eqb x c = false end ->
  match rev s with [] => True | x :: _ => N.eqb x c = false end ->
  trim_with (trim_pred [c]) TBoth (pad_str w c d s) = s.
Print Assumptions C16_trim_op_undoes_pad_op.

(* reverse and substring move whole characters: they commute with any relabelling
   of characters (e.g. swapping an ASCII letter for a 4-byte one) *)
Theorem C16_reverse_whole_chars :
  forall (f : N -> N) (s : str), rev (map f s) = map f (rev s).
Proof. exact reverse_relabel. Qed.
Check C16_reverse_whole_chars :
  forall (f : N -> N) (s : str), rev (map f s) = map f (rev s).
Print Assumptions C16_reverse_whole_chars.

Theorem C16_substring_whole_chars :
  forall (f : N -> N) (r : range) (s : str), select r (map f s) = map f (select r s).
Proof. exact substring_relabel. Qed.
Check C16_substring_whole_chars :
  forall (f : N -> N) (r : range) (s : str), select r (map f s) = map f (select r s).
Print Assumptions C16_substring_whole_chars.

Theorem C16_valid_reverse :
  forall (s : str), valid (rev s) = valid s.
Proof. exact valid_rev. Qed.
Check C16_valid_reverse :
  forall (s : str), valid (rev s) = valid s.
Print Assumptions C16_valid_reverse.

Theorem C16_valid_substring :
  forall (r : range) (s : str), valid s = true -> valid (select r s) = true.
Proof. exact valid_select. Qed.
Check C16_valid_substring :
  forall (r : range) (s : str), valid s = true -> valid (select r s) = true.
Print Assumptions C16_valid_substring.

Theorem C16_valid_pad :
  forall (w c : N) (d : pdir) (s : str), valid_cp c = true -> valid s = true -> valid (pad_str w c d s) = true.
Proof. exact valid_pad. Qed.
Check C16_valid_pad :
  forall (w c : N) (d : pdir) (s : str), valid_cp c = true -> valid s = true -> valid (pad_str w c d s) = true.
Print Assumptions C16_valid_pad.

Theorem C16_valid_trim :
  forall (f : N -> bool) (d : tdir) (s : str), valid s = true -> valid (trim_with f d s) = true.
Proof. exact valid_trim. Qed.
Check C16_valid_trim :
  forall (f : N -> bool) (d : tdir) (s : str), valid s = true -> valid (trim_with f d s) = true.
Print Assumptions C16_valid_trim.

(* the three ASCII fast paths (reverse, substring, trim) and the Unicode paths
   compute the same function: the result never depends on whether unrelated
   characters are ASCII *)
Theorem C16_ascii_fast_paths_unobservable :
  forall (E : Env), L1 replace_meta E ->
  forall (o : op) (v : value) (sep : str), (forall b, o <> Map b) ->
    run_pure (impl_single E o v sep) = spec_step E o v sep.
Proof. exact impl_single_refines. Qed.
Check C16_ascii_fast_paths_unobservable :
  forall (E : Env), L1 replace_meta E ->
  forall (o : op) (v : value) (sep : str), (forall b, o <> Map b) ->
    run_pure (impl_single E o v sep) = spec_step E o v sep.
Print Assumptions C16_ascii_fast_paths_unobservable.

Example C16_ex :
  pad_str 5 42 PBoth [233; 98]%N = [42; 233; 98; 42; 42]%N
  /\ trim_with (trim_pred [32]%N) TBoth [11; 97; 11]%N = [97]%N
  /\ trim_with (trim_pred [120; 121]%N) TLeft [120; 121; 97; 120]%N = [97; 120]%N
  /\ is_ws 11 = true /\ is_ws 8203 = false /\ is_ws 12288 = true.
Proof. vm_compute. repeat split. Qed.
