(* C15 -- list operations obey their algebraic laws.
   GENERATED from Properties/src/C15.props by tools/mkprops.py; property theorems only. *)
From SP Require Import Model.Impl Model.Spec.
From SP Require Import Proofs.ImplSpec Proofs.ListOps Proofs.ListLawsP Proofs.RangeP Proofs.MapSepP.
From Coq Require Import Permutation Sorted.

Theorem C15_sort_is_a_permutation :
  forall (l : list str), Permutation (sort_asc l) l.
Proof. exact sort_perm. Qed.
Check C15_sort_is_a_permutation :
  forall (l : list str), Permutation (sort_asc l) l.
Print Assumptions C15_sort_is_a_permutation.

Theorem C15_sort_is_ascending :
  forall (l : list str), StronglySorted sle (sort_asc l).
Proof. exact sort_sorted. Qed.
Check C15_sort_is_ascending :
  forall (l : list str), StronglySorted sle (sort_asc l).
Print Assumptions C15_sort_is_ascending.

(* code-point order is total and antisymmetric, so "the same items in ascending
   order" determines the result: the model's choice of sorting algorithm is
   without loss of generality *)
Theorem C15_sorted_permutation_is_unique :
  forall (l1 l2 : list str),
  StronglySorted sle l1 -> StronglySorted sle l2 -> Permutation l1 l2 -> l1 = l2.
Proof. exact sorted_perm_unique. Qed.
Check C15_sorted_permutation_is_unique :
  forall (l1 l2 : list str),
  StronglySorted sle l1 -> StronglySorted sle l2 -> Permutation l1 l2 -> l1 = l2.
Print Assumptions C15_sorted_permutation_is_unique.

Theorem C15_order_total :
  forall (a b : str), str_leb a b = true \/ str_leb b a = true.
Proof. exact str_leb_total. Qed.
Check C15_order_total :
  forall (a b : str), str_leb a b = true \/ str_leb b a = true.
Print Assumptions C15_order_total.

Theorem C15_order_antisym :
  forall (a b : str), str_leb a b = true -> str_leb b a = true -> a = b.
Proof. exact str_leb_antisym. Qed.
Check C15_order_antisym :
  forall (a b : str), str_leb a b = true -> str_leb b a = true -> a = b.
Print Assumptions C15_order_antisym.

Theorem C15_sort_desc_is_reverse_of_sort :
  forall (E : Env) (l : list str) (sep : str),
  spec_step E (Sort Desc) (VList l) sep = Ok (VList (rev (sort_asc l)), sep)
  /\ spec_step E (Sort Asc) (VList l) sep = Ok (VList (sort_asc l), sep).
Proof. exact sort_desc_is_reverse_of_sort. Qed.
Check C15_sort_desc_is_reverse_of_sort :
  forall (E : Env) (l : list str) (sep : str),
  spec_step E (Sort Desc) (VList l) sep = Ok (VList (rev (sort_asc l)), sep)
  /\ spec_step E (Sort Asc) (VList l) sep = Ok (VList (sort_asc l), sep).
Print Assumptions C15_sort_desc_is_reverse_of_sort.

Theorem C15_reverse_reverses :
  forall (E : Env) (v : value) (sep : str),
  spec_step E Reverse v sep = Ok (match v with VStr s => VStr (rev s) | VList l => VList (rev l) end, sep).
Proof. exact reverse_spec. Qed.
Check C15_reverse_reverses :
  forall (E : Env) (v : value) (sep : str),
  spec_step E Reverse v sep = Ok (match v with VStr s => VStr (rev s) | VList l => VList (rev l) end, sep).
Print Assumptions C15_reverse_reverses.

Theorem C15_unique_nodup :
  forall (l : list str), NoDup (unique l).
Proof. exact unique_nodup. Qed.
Check C15_unique_nodup :
  forall (l : list str), NoDup (unique l).
Print Assumptions C15_unique_nodup.

Theorem C15_unique_same_set :
  forall (l : list str) (x : str), In x (unique l) <-> In x l.
Proof. exact unique_same_set. Qed.
Check C15_unique_same_set :
  forall (l : list str) (x : str), In x (unique l) <-> In x l.
Print Assumptions C15_unique_same_set.

Theorem C15_unique_keeps_order :
  forall (l : list str), subseq (unique l) l.
Proof. exact unique_subseq. Qed.
Check C15_unique_keeps_order :
  forall (l : list str), subseq (unique l) l.
Print Assumptions C15_unique_keeps_order.

Theorem C15_unique_first_occurrence :
  forall (p : list str) (x : str) (q : list str), ~ In x p ->
  exists q', unique (p ++ x :: q) = unique p ++ x :: q'.
Proof. exact unique_first_occurrence. Qed.
Check C15_unique_first_occurrence :
  forall (p : list str) (x : str) (q : list str), ~ In x p ->
  exists q', unique (p ++ x :: q) = unique p ++ x :: q'.
Print Assumptions C15_unique_first_occurrence.

Theorem C15_unique_idempotent :
  forall (l : list str), unique (unique l) = unique l.
Proof. exact unique_idempotent. Qed.
Check C15_unique_idempotent :
  forall (l : list str), unique (unique l) = unique l.
Print Assumptions C15_unique_idempotent.

Theorem C15_reverse_twice :
  forall (A : Type) (l : list A), rev (rev l) = l.
Proof. exact @rev_involutive. Qed.
Check C15_reverse_twice :
  forall (A : Type) (l : list A), rev (rev l) = l.
Print Assumptions C15_reverse_twice.

Theorem C15_filter_partition :
  forall (A : Type) (f : A -> bool) (l : list A),
  Permutation (filter f l ++ filter (fun x => negb (f x)) l) l.
Proof. exact @filter_partition. Qed.
Check C15_filter_partition :
  forall (A : Type) (f : A -> bool) (l : list A),
  Permutation (filter f l ++ filter (fun x => negb (f x)) l) l.
Print Assumptions C15_filter_partition.

Theorem C15_filter_keeps_order :
  forall (A : Type) (f : A -> bool) (l : list A), subseq (filter f l) l.
Proof. exact @filter_subseq. Qed.
Check C15_filter_keeps_order :
  forall (A : Type) (f : A -> bool) (l : list A), subseq (filter f l) l.
Print Assumptions C15_filter_keeps_order.

Theorem C15_filter_exactly_one_side :
  forall (A : Type) (f : A -> bool) (l : list A) (x : A),
  In x l -> (In x (filter f l) /\ ~ In x (filter (fun y => negb (f y)) l))
         \/ (~ In x (filter f l) /\ In x (filter (fun y => negb (f y)) l)).
Proof. exact @filter_exactly_one_side. Qed.
Check C15_filter_exactly_one_side :
  forall (A : Type) (f : A -> bool) (l : list A) (x : A),
  In x l -> (In x (filter f l) /\ ~ In x (filter (fun y => negb (f y)) l))
         \/ (~ In x (filter f l) /\ In x (filter (fun y => negb (f y)) l)).
Print Assumptions C15_filter_exactly_one_side.

Theorem C15_slice_is_a_block :
  forall (T : Type) (r : range) (l : list T), exists p q, l = p ++ select r l ++ q.
Proof. exact @select_is_block. Qed.
Check C15_slice_is_a_block :
  forall (T : Type) (r : range) (l : list T), exists p q, l = p ++ select r l ++ q.
Print Assumptions C15_slice_is_a_block.

Theorem C15_sort_idempotent :
  forall (l : list str), sort_asc (sort_asc l) = sort_asc l.
Proof. exact sort_idempotent. Qed.
Check C15_sort_idempotent :
  forall (l : list str), sort_asc (sort_asc l) = sort_asc l.
Print Assumptions C15_sort_idempotent.

(* any rearrangement of the input sorts to the same list *)
Theorem C15_sort_depends_on_the_multiset_only :
  forall (l1 l2 : list str), Permutation l1 l2 -> sort_asc l1 = sort_asc l2.
Proof. exact sort_order_insensitive. Qed.
Check C15_sort_depends_on_the_multiset_only :
  forall (l1 l2 : list str), Permutation l1 l2 -> sort_asc l1 = sort_asc l2.
Print Assumptions C15_sort_depends_on_the_multiset_only.

Theorem C15_sort_after_reverse :
  forall (l : list str), sort_asc (rev l) = sort_asc l.
Proof. exact sort_after_reverse. Qed.
Check C15_sort_after_reverse :
  forall (l : list str), sort_asc (rev l) = sort_asc l.
Print Assumptions C15_sort_after_reverse.

Theorem C15_sort_keeps_length :
  forall (l : list str), length (sort_asc l) = length l.
Proof. exact sort_length. Qed.
Check C15_sort_keeps_length :
  forall (l : list str), length (sort_asc l) = length l.
Print Assumptions C15_sort_keeps_length.

Theorem C15_sorted_list_is_fixed :
  forall (l : list str), StronglySorted sle l -> sort_asc l = l.
Proof. exact sorted_is_fixed. Qed.
Check C15_sorted_list_is_fixed :
  forall (l : list str), StronglySorted sle l -> sort_asc l = l.
Print Assumptions C15_sorted_list_is_fixed.

Theorem C15_filter_idempotent :
  forall (A : Type) (f : A -> bool) (l : list A), filter f (filter f l) = filter f l.
Proof. exact @filter_idempotent. Qed.
Check C15_filter_idempotent :
  forall (A : Type) (f : A -> bool) (l : list A), filter f (filter f l) = filter f l.
Print Assumptions C15_filter_idempotent.

Theorem C15_filter_not_after_filter_is_empty :
  forall (A : Type) (f : A -> bool) (l : list A), filter (fun x => negb (f x)) (filter f l) = [].
Proof. exact @filter_then_opposite_is_empty. Qed.
Check C15_filter_not_after_filter_is_empty :
  forall (A : Type) (f : A -> bool) (l : list A), filter (fun x => negb (f x)) (filter f l) = [].
Print Assumptions C15_filter_not_after_filter_is_empty.

Theorem C15_filter_lengths_add_up :
  forall (A : Type) (f : A -> bool) (l : list A),
  length (filter f l) + length (filter (fun x => negb (f x)) l) = length l.
Proof. exact @filter_length_split. Qed.
Check C15_filter_lengths_add_up :
  forall (A : Type) (f : A -> bool) (l : list A),
  length (filter f l) + length (filter (fun x => negb (f x)) l) = length l.
Print Assumptions C15_filter_lengths_add_up.

(* removing duplicates and sorting can be done in either order *)
Theorem C15_unique_and_sort_commute :
  forall (l : list str), unique (sort_asc l) = sort_asc (unique l).
Proof. exact unique_sort_commute. Qed.
Check C15_unique_and_sort_commute :
  forall (l : list str), unique (sort_asc l) = sort_asc (unique l).
Print Assumptions C15_unique_and_sort_commute.

Theorem C15_sort_invents_nothing :
  forall (l : list str), incl (sort_asc l) l.
Proof. exact sort_incl. Qed.
Check C15_sort_invents_nothing :
  forall (l : list str), incl (sort_asc l) l.
Print Assumptions C15_sort_invents_nothing.

Theorem C15_unique_invents_nothing :
  forall (l : list str), incl (unique l) l.
Proof. exact unique_incl. Qed.
Check C15_unique_invents_nothing :
  forall (l : list str), incl (unique l) l.
Print Assumptions C15_unique_invents_nothing.

(* sort:desc is literally the reverse of sort in the documented semantics
   (spec_step (Sort Desc) = rev o sort_asc), and the code computes the documented
   semantics *)
Theorem C15_code_does_this :
  forall (E : Env), L1 replace_meta E ->
  forall (dbg : bool) (ops : list op) (x : str),
    run_pure (impl_run E dbg ops x) = spec_run E ops x.
Proof. exact impl_run_refines. Qed.
Check C15_code_does_this :
  forall (E : Env), L1 replace_meta E ->
  forall (dbg : bool) (ops : list op) (x : str),
    run_pure (impl_run E dbg ops x) = spec_run E ops x.
Print Assumptions C15_code_does_this.

Example C15_ex :
  sort_asc [[98]; [97; 98]; []; [233]; [97]]%N = [[]; [97]; [97; 98]; [98]; [233]]%N
  /\ unique [[97]; [98]; [97]; []; [98]; []]%N = [[97]; [98]; []]%N.
Proof. vm_compute. split; reflexivity. Qed.
