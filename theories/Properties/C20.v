(* C20 -- introspection agrees with the template text and with formatting.
   GENERATED from Properties/src/C20.props by tools/mkprops.py; property theorems only. *)
From SP Require Import Model.Template Model.Scanner.
From SP Require Import Proofs.ImplSpec Proofs.TemplateP Proofs.TemplateLaws Proofs.IntrospectP.

Theorem C20_template_string :
  forall (s : str) (t : template), template_parse s = Ok t -> template_string t = s.
Proof. exact parse_keeps_text. Qed.
Check C20_template_string :
  forall (s : str) (t : template), template_parse s = Ok t -> template_string t = s.
Print Assumptions C20_template_string.

Theorem C20_template_string_with_debug :
  forall (s : str) (d : option bool) (t : template), template_parse_with_debug s d = Ok t -> template_string t = s.
Proof. exact parse_with_debug_keeps_text. Qed.
Check C20_template_string_with_debug :
  forall (s : str) (d : option bool) (t : template), template_parse_with_debug s d = Ok t -> template_string t = s.
Print Assumptions C20_template_string_with_debug.

Theorem C20_reparse :
  forall (s : str) (t : template), template_parse s = Ok t -> template_parse (template_string t) = Ok t.
Proof. exact reparse. Qed.
Check C20_reparse :
  forall (s : str) (t : template), template_parse s = Ok t -> template_parse (template_string t) = Ok t.
Print Assumptions C20_reparse.

Theorem C20_counts :
  forall (t : template),
  section_count t = length (t_sections t)
  /\ template_section_count t = length (filter is_sec (t_sections t))
  /\ length (get_section_info t) = section_count t
  /\ length (get_template_sections t) = template_section_count t.
Proof. exact section_counts. Qed.
Check C20_counts :
  forall (t : template),
  section_count t = length (t_sections t)
  /\ template_section_count t = length (filter is_sec (t_sections t))
  /\ length (get_section_info t) = section_count t
  /\ length (get_template_sections t) = template_section_count t.
Print Assumptions C20_counts.

(* parts in order with consecutive positions, literal contents verbatim,
   operations as parsed, template positions counting sections only *)
Theorem C20_section_info :
  forall (secs : list section) (a b i : nat) (s : section),
  nth_error secs i = Some s ->
  exists info, nth_error (section_info_from secs a b) i = Some info /\
    si_overall info = (a + i)%nat /\
    match s with
    | Lit l => si_is_template info = false /\ si_content info = Some l /\ si_ops info = None /\ si_template_pos info = None
    | Sec ops => si_is_template info = true /\ si_content info = None /\ si_ops info = Some ops
                 /\ si_template_pos info = Some (b + length (filter is_sec (firstn i secs)))%nat
    end.
Proof. exact section_info_nth. Qed.
Check C20_section_info :
  forall (secs : list section) (a b i : nat) (s : section),
  nth_error secs i = Some s ->
  exists info, nth_error (section_info_from secs a b) i = Some info /\
    si_overall info = (a + i)%nat /\
    match s with
    | Lit l => si_is_template info = false /\ si_content info = Some l /\ si_ops info = None /\ si_template_pos info = None
    | Sec ops => si_is_template info = true /\ si_content info = None /\ si_ops info = Some ops
                 /\ si_template_pos info = Some (b + length (filter is_sec (firstn i secs)))%nat
    end.
Print Assumptions C20_section_info.

(* get_template_sections lists exactly the sections, in order, numbered 0, 1, 2, ...
   and is, entry by entry, the template part of get_section_info *)
Theorem C20_accessors_agree :
  forall (t : template),
  get_template_sections t = flat_map info_entry (get_section_info t)
  /\ map fst (get_template_sections t) = seq 0 (template_section_count t)
  /\ map snd (get_template_sections t) = sec_ops (t_sections t).
Proof. exact accessors_agree. Qed.
Check C20_accessors_agree :
  forall (t : template),
  get_template_sections t = flat_map info_entry (get_section_info t)
  /\ map fst (get_template_sections t) = seq 0 (template_section_count t)
  /\ map snd (get_template_sections t) = sec_ops (t_sections t).
Print Assumptions C20_accessors_agree.

(* the section info carries every literal verbatim and every section's operations,
   in the order in which formatting concatenates them *)
Theorem C20_info_lists_the_parts :
  forall (secs : list section) (a b : nat),
  map (fun i => (si_content i, si_ops i)) (section_info_from secs a b)
  = map (fun s => match s with Lit l => (Some l, None) | Sec o => (None, Some o) end) secs.
Proof. exact info_lists_the_parts. Qed.
Check C20_info_lists_the_parts :
  forall (secs : list section) (a b : nat),
  map (fun i => (si_content i, si_ops i)) (section_info_from secs a b)
  = map (fun s => match s with Lit l => (Some l, None) | Sec o => (None, Some o) end) secs.
Print Assumptions C20_info_lists_the_parts.

Theorem C20_debug_accessor :
  forall (t : template) (d : bool),
  t_sections (with_debug t d) = t_sections t /\ t_raw (with_debug t d) = t_raw t /\ is_debug (with_debug t d) = d.
Proof. exact setters_only_set_flag. Qed.
Check C20_debug_accessor :
  forall (t : template) (d : bool),
  t_sections (with_debug t d) = t_sections t /\ t_raw (with_debug t d) = t_raw t /\ is_debug (with_debug t d) = d.
Print Assumptions C20_debug_accessor.

Theorem C20_last_setting_wins :
  forall (t : template) (d1 d2 : bool), with_debug (with_debug t d1) d2 = with_debug t d2.
Proof. exact last_setting_wins. Qed.
Check C20_last_setting_wins :
  forall (t : template) (d1 d2 : bool), with_debug (with_debug t d1) d2 = with_debug t d2.
Print Assumptions C20_last_setting_wins.

(* concatenating the literal contents with each section's standalone result
   reproduces the output of formatting *)
Theorem C20_concat_law :
  forall (E : Env), L1 replace_meta E ->
  forall (t : template) (x : str),
    run_pure (impl_format E t x) = spec_format E (t_sections t) x.
Proof. exact format_refines. Qed.
Check C20_concat_law :
  forall (E : Env), L1 replace_meta E ->
  forall (t : template) (x : str),
    run_pure (impl_format E t x) = spec_format E (t_sections t) x.
Print Assumptions C20_concat_law.

