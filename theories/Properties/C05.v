(* C05 -- formatting is a pure function of (template, input): caches are unobservable.
   GENERATED from Properties/src/C05.props by tools/mkprops.py; property theorems only. *)
From SP Require Import Model.Template.
From SP Require Import Proofs.ImplSpec Proofs.TemplateP Proofs.EffP Proofs.Corollaries.

(* one call against ANY cache state that satisfies the invariant returns exactly
   its cache-free result and leaves the invariant intact *)
Theorem C05_call :
  forall (E : Env) (A : Type) (m : prog A) (c : caches),
  CacheInv E c -> wf E m -> fst (run_st m c) = run_pure m /\ CacheInv E (snd (run_st m c)).
Proof. exact run_st_pure. Qed.
Check C05_call :
  forall (E : Env) (A : Type) (m : prog A) (c : caches),
  CacheInv E c -> wf E m -> fst (run_st m c) = run_pure m /\ CacheInv E (snd (run_st m c)).
Print Assumptions C05_call.

(* ANY history of calls in one process (any order, failing calls included):
   every call returns what it returns alone *)
Theorem C05_history :
  forall (E : Env) (A : Type) (calls : list (prog A)) (c : caches),
  CacheInv E c -> Forall (wf E) calls ->
  fst (run_history calls c) = map run_pure calls /\ CacheInv E (snd (run_history calls c)).
Proof. exact history_pure. Qed.
Check C05_history :
  forall (E : Env) (A : Type) (calls : list (prog A)) (c : caches),
  CacheInv E c -> Forall (wf E) calls ->
  fst (run_history calls c) = map run_pure calls /\ CacheInv E (snd (run_history calls c)).
Print Assumptions C05_history.

(* format() -- both section loops, memo, fast split, every cache access of every
   operation -- is such a program: every Put writes the value its key determines *)
Theorem C05_format_is_well_formed :
  forall (E : Env) (t : template) (x : str), wf E (impl_format E t x).
Proof. exact wf_impl_format. Qed.
Check C05_format_is_well_formed :
  forall (E : Env) (t : template) (x : str), wf E (impl_format E t x).
Print Assumptions C05_format_is_well_formed.

Theorem C05_format_with_inputs_is_well_formed :
  forall (E : Env) (t : template) (inputs : list (list str)) (seps : list str),
  wf E (impl_format_with_inputs E t inputs seps).
Proof. exact wf_impl_format_with_inputs. Qed.
Check C05_format_with_inputs_is_well_formed :
  forall (E : Env) (t : template) (inputs : list (list str)) (seps : list str),
  wf E (impl_format_with_inputs E t inputs seps).
Print Assumptions C05_format_with_inputs_is_well_formed.

Theorem C05_cold_start :
  forall (E : Env), CacheInv E empty_caches.
Proof. exact CacheInv_empty. Qed.
Check C05_cold_start :
  forall (E : Env), CacheInv E empty_caches.
Print Assumptions C05_cold_start.

(* the user-level statement: in any history of format calls starting from a cold
   process each result is the documented semantics of (template, input) alone *)
Theorem C05_format_history :
  forall (E : Env), L1 replace_meta E ->
  forall (calls : list (template * str)),
    fst (run_history (map (fun tx => impl_format E (fst tx) (snd tx)) calls) empty_caches)
    = map (fun tx => spec_format E (t_sections (fst tx)) (snd tx)) calls.
Proof. exact format_history_pure. Qed.
Check C05_format_history :
  forall (E : Env), L1 replace_meta E ->
  forall (calls : list (template * str)),
    fst (run_history (map (fun tx => impl_format E (fst tx) (snd tx)) calls) empty_caches)
    = map (fun tx => spec_format E (t_sections (fst tx)) (snd tx)) calls.
Print Assumptions C05_format_history.

Theorem C05_split_cache_is_split :
  forall (s sep : str), run_pure (get_cached_split s sep) = split s sep.
Proof. exact run_pure_get_cached_split. Qed.
Check C05_split_cache_is_split :
  forall (s sep : str), run_pure (get_cached_split s sep) = split s sep.
Print Assumptions C05_split_cache_is_split.

(* the per-call memo only ever hits on the very same operation list *)
Theorem C05_memo_sound_key :
  forall (a b : list op), ops_eqb a b = true -> a = b.
Proof. exact ops_eqb_eq. Qed.
Check C05_memo_sound_key :
  forall (a b : list op), ops_eqb a b = true -> a = b.
Print Assumptions C05_memo_sound_key.

