(* C06 -- index and range arguments select the same items everywhere, for every
   bound.  Property theorems only; proofs are in Proofs/RangeP.v. *)
From SP Require Import Model.Range Proofs.RangeP.
Local Open Scope Z_scope.

(* the code's selection (early returns, clamp, saturating add, slice indexing,
   checked isize arithmetic) IS the documented rule, for every bound the parser
   can produce and every collection Rust can hold; in particular it never fails
   and never panics *)
Theorem C06_apply_range_is_select :
  forall (T : Type) (l : list T) (r : range),
    range_in_isize r = true -> Z.of_nat (length l) <= isize_max ->
    apply_range l r = Ok (select r l).
Proof. exact @apply_range_is_select. Qed.
Check C06_apply_range_is_select :
  forall (T : Type) (l : list T) (r : range),
    range_in_isize r = true -> Z.of_nat (length l) <= isize_max ->
    apply_range l r = Ok (select r l).
Print Assumptions C06_apply_range_is_select.

Theorem C06_index_arithmetic_never_panics :
  forall idx len, in_isize idx = true -> 0 <= len <= isize_max -> resolve_index idx len <> Panic.
Proof. exact resolve_index_no_panic. Qed.
Check C06_index_arithmetic_never_panics :
  forall idx len, in_isize idx = true -> 0 <= len <= isize_max -> resolve_index idx len <> Panic.
Print Assumptions C06_index_arithmetic_never_panics.

(* a single index picks exactly one item: the one at the position counted from
   the end when negative and clamped to the nearest valid position *)
Theorem C06_index_picks_one :
  forall (T : Type) (l : list T) (i : Z),
    l <> [] ->
    let len := Z.of_nat (length l) in
    let p := Z.min (norm i len) (len - 1) in
    0 <= p < len /\ exists x, nth_error l (Z.to_nat p) = Some x /\ select (Index i) l = [x].
Proof. exact @select_index_one. Qed.
Check C06_index_picks_one :
  forall (T : Type) (l : list T) (i : Z),
    l <> [] ->
    let len := Z.of_nat (length l) in
    let p := Z.min (norm i len) (len - 1) in
    0 <= p < len /\ exists x, nth_error l (Z.to_nat p) = Some x /\ select (Index i) l = [x].
Print Assumptions C06_index_picks_one.

Theorem C06_index_position :
  forall i len, 0 < len ->
    Z.min (norm i len) (len - 1) =
      if i <? 0 then (if len + i <? 0 then 0 else len + i)
      else (if i <? len then i else len - 1).
Proof. exact select_index_position. Qed.
Check C06_index_position :
  forall i len, 0 < len ->
    Z.min (norm i len) (len - 1) =
      if i <? 0 then (if len + i <? 0 then 0 else len + i)
      else (if i <? len then i else len - 1).
Print Assumptions C06_index_position.

(* a range picks the contiguous run between the clamped bounds, in original
   order, and is empty exactly when the start is not before the end *)
Theorem C06_range_contiguous :
  forall (T : Type) (l : list T) a b inc,
    let len := Z.of_nat (length l) in
    let s := range_start a len in
    let e := range_end b inc len in
    select (Range a b inc) l = if s <? e then firstn (Z.to_nat (e - s)) (skipn (Z.to_nat s) l) else [].
Proof. exact @select_range_contiguous. Qed.
Check C06_range_contiguous :
  forall (T : Type) (l : list T) a b inc,
    let len := Z.of_nat (length l) in
    let s := range_start a len in
    let e := range_end b inc len in
    select (Range a b inc) l = if s <? e then firstn (Z.to_nat (e - s)) (skipn (Z.to_nat s) l) else [].
Print Assumptions C06_range_contiguous.

Theorem C06_range_empty_iff :
  forall (T : Type) (l : list T) a b inc,
    let len := Z.of_nat (length l) in
    select (Range a b inc) l = [] <-> (l = [] \/ range_end b inc len <= range_start a len).
Proof. exact @select_range_empty_iff. Qed.
Check C06_range_empty_iff :
  forall (T : Type) (l : list T) a b inc,
    let len := Z.of_nat (length l) in
    select (Range a b inc) l = [] <-> (l = [] \/ range_end b inc len <= range_start a len).
Print Assumptions C06_range_empty_iff.

Theorem C06_range_length :
  forall (T : Type) (l : list T) a b inc,
    let len := Z.of_nat (length l) in
    Z.of_nat (length (select (Range a b inc) l)) = Z.max 0 (range_end b inc len - range_start a len).
Proof. exact @select_range_length. Qed.
Check C06_range_length :
  forall (T : Type) (l : list T) a b inc,
    let len := Z.of_nat (length l) in
    Z.of_nat (length (select (Range a b inc) l)) = Z.max 0 (range_end b inc len - range_start a len).
Print Assumptions C06_range_length.

(* empty input gives empty output *)
Theorem C06_empty_in_empty_out : forall (T : Type) (r : range), @select T r [] = [].
Proof. exact @select_nil. Qed.
Check C06_empty_in_empty_out : forall (T : Type) (r : range), @select T r [] = [].
Print Assumptions C06_empty_in_empty_out.

(* the rule does not depend on what the items are (parts, list items, bytes of
   an ASCII string, characters, words) *)
Theorem C06_same_on_every_carrier :
  forall (A B : Type) (f : A -> B) (r : range) (l : list A), select r (map f l) = map f (select r l).
Proof. exact @select_map. Qed.
Check C06_same_on_every_carrier :
  forall (A B : Type) (f : A -> B) (r : range) (l : list A), select r (map f l) = map f (select r l).
Print Assumptions C06_same_on_every_carrier.

Theorem C06_selected_is_a_block_of_the_original :
  forall (T : Type) (r : range) (l : list T), exists p q, l = p ++ select r l ++ q.
Proof. exact @select_is_block. Qed.
Check C06_selected_is_a_block_of_the_original :
  forall (T : Type) (r : range) (l : list T), exists p q, l = p ++ select r l ++ q.
Print Assumptions C06_selected_is_a_block_of_the_original.

Theorem C06_full_range_is_identity :
  forall (T : Type) (l : list T), select (Range None None false) l = l.
Proof. exact @select_full. Qed.
Check C06_full_range_is_identity :
  forall (T : Type) (l : list T), select (Range None None false) l = l.
Print Assumptions C06_full_range_is_identity.

(* non-vacuity: concrete instances, evaluated by the kernel *)
Example C06_ex_negative_inclusive :
  select (Range (Some (-3)) (Some 9) true) [1; 2; 3; 4; 5]%N = [3; 4; 5]%N
  /\ apply_range [1; 2; 3; 4; 5]%N (Range (Some (-3)) (Some 9) true) = Ok [3; 4; 5]%N
  /\ select (Index (-9223372036854775808)) [1; 2; 3]%N = [1]%N
  /\ select (Index 9223372036854775807) [1; 2; 3]%N = [3]%N
  /\ select (Range (Some 2) (Some 2) false) [1; 2; 3]%N = []
  /\ range_in_isize (Range (Some (-9223372036854775808)) (Some 9223372036854775807) true) = true.
Proof. vm_compute. repeat split. Qed.
