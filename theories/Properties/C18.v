(* C18 -- format_with_inputs gives every section its own inputs and separator.
   GENERATED from Properties/src/C18.props by tools/mkprops.py; property theorems only. *)
From SP Require Import Model.Template.
From SP Require Import Proofs.ImplSpec Proofs.TemplateP Proofs.TemplateLaws Proofs.FwiP.

(* literals verbatim; section k contributes the results of running it on each of
   its inputs separately, joined by its separator; first error fails the call; the
   memo shared across sections and inputs is unobservable *)
Theorem C18_spec :
  forall (E : Env), L1 replace_meta E ->
  forall (t : template) (inputs : list (list str)) (seps : list str),
    run_pure (impl_format_with_inputs E t inputs seps) = spec_format_with_inputs E (t_sections t) inputs seps.
Proof. exact format_with_inputs_refines. Qed.
Check C18_spec :
  forall (E : Env), L1 replace_meta E ->
  forall (t : template) (inputs : list (list str)) (seps : list str),
    run_pure (impl_format_with_inputs E t inputs seps) = spec_format_with_inputs E (t_sections t) inputs seps.
Print Assumptions C18_spec.

Theorem C18_same_single_input_is_format :
  forall (E : Env) (secs : list section) (x : str) (seps : list str) (inputs : list (list str)) (idx : nat),
  (forall k, (idx <= k < idx + length (filter is_sec secs))%nat -> nth k inputs [] = [x]) ->
  omap (@concat N) (spec_fwi E secs inputs seps idx) = spec_format E secs x.
Proof. exact fwi_same_single_input. Qed.
Check C18_same_single_input_is_format :
  forall (E : Env) (secs : list section) (x : str) (seps : list str) (inputs : list (list str)) (idx : nat),
  (forall k, (idx <= k < idx + length (filter is_sec secs))%nat -> nth k inputs [] = [x]) ->
  omap (@concat N) (spec_fwi E secs inputs seps idx) = spec_format E secs x.
Print Assumptions C18_same_single_input_is_format.

Theorem C18_missing_inputs_contribute_nothing :
  forall (E : Env) (ops : list op) (rest : list section) (inputs : list (list str)) (seps : list str) (idx : nat),
  (length inputs <= idx)%nat ->
  spec_fwi E (Sec ops :: rest) inputs seps idx = omap (cons []) (spec_fwi E rest inputs seps (S idx)).
Proof. exact fwi_missing_inputs_are_empty. Qed.
Check C18_missing_inputs_contribute_nothing :
  forall (E : Env) (ops : list op) (rest : list section) (inputs : list (list str)) (seps : list str) (idx : nat),
  (length inputs <= idx)%nat ->
  spec_fwi E (Sec ops :: rest) inputs seps idx = omap (cons []) (spec_fwi E rest inputs seps (S idx)).
Print Assumptions C18_missing_inputs_contribute_nothing.

Theorem C18_missing_separator_is_space :
  forall (E : Env) (ops : list op) (rest : list section) (inputs : list (list str)) (seps : list str) (idx : nat),
  (length seps <= idx)%nat ->
  spec_fwi E (Sec ops :: rest) inputs seps idx =
    bind (mapM (spec_run E ops) (nth idx inputs [])) (fun outs =>
      omap (cons (join [32%N] outs)) (spec_fwi E rest inputs seps (S idx))).
Proof. exact fwi_missing_separator_is_space. Qed.
Check C18_missing_separator_is_space :
  forall (E : Env) (ops : list op) (rest : list section) (inputs : list (list str)) (seps : list str) (idx : nat),
  (length seps <= idx)%nat ->
  spec_fwi E (Sec ops :: rest) inputs seps idx =
    bind (mapM (spec_run E ops) (nth idx inputs [])) (fun outs =>
      omap (cons (join [32%N] outs)) (spec_fwi E rest inputs seps (S idx))).
Print Assumptions C18_missing_separator_is_space.

Theorem C18_surplus_ignored :
  forall (E : Env) (secs : list section) (inputs : list (list str)) (seps : list str) (idx : nat)
       (extra_i : list (list str)) (extra_s : list str),
  (idx + length (filter is_sec secs) <= length inputs)%nat ->
  (idx + length (filter is_sec secs) <= length seps)%nat ->
  spec_fwi E secs (inputs ++ extra_i) (seps ++ extra_s) idx = spec_fwi E secs inputs seps idx.
Proof. exact fwi_surplus_ignored. Qed.
Check C18_surplus_ignored :
  forall (E : Env) (secs : list section) (inputs : list (list str)) (seps : list str) (idx : nat)
       (extra_i : list (list str)) (extra_s : list str),
  (idx + length (filter is_sec secs) <= length inputs)%nat ->
  (idx + length (filter is_sec secs) <= length seps)%nat ->
  spec_fwi E secs (inputs ++ extra_i) (seps ++ extra_s) idx = spec_fwi E secs inputs seps idx.
Print Assumptions C18_surplus_ignored.

(* the sections numbered idx .. look at the slots idx .. of inputs and separators
   and at nothing else: any two argument lists that agree there give the same result *)
Theorem C18_only_own_slots :
  forall (E : Env) (secs : list section) (inputs inputs' : list (list str)) (seps seps' : list str) (idx : nat),
  (forall k, (idx <= k < idx + length (filter is_sec secs))%nat ->
     nth k inputs [] = nth k inputs' [] /\ nth k seps [32%N] = nth k seps' [32%N]) ->
  spec_fwi E secs inputs seps idx = spec_fwi E secs inputs' seps' idx.
Proof. exact fwi_only_own_slots. Qed.
Check C18_only_own_slots :
  forall (E : Env) (secs : list section) (inputs inputs' : list (list str)) (seps seps' : list str) (idx : nat),
  (forall k, (idx <= k < idx + length (filter is_sec secs))%nat ->
     nth k inputs [] = nth k inputs' [] /\ nth k seps [32%N] = nth k seps' [32%N]) ->
  spec_fwi E secs inputs seps idx = spec_fwi E secs inputs' seps' idx.
Print Assumptions C18_only_own_slots.

(* a template is its first part followed by its second part, whose sections are
   numbered after those of the first *)
Theorem C18_parts_compose :
  forall (E : Env) (s1 s2 : list section) (inputs : list (list str)) (seps : list str) (idx : nat),
  spec_fwi E (s1 ++ s2) inputs seps idx =
    bind (spec_fwi E s1 inputs seps idx) (fun a =>
      omap (app a) (spec_fwi E s2 inputs seps (idx + length (filter is_sec s1)))).
Proof. exact fwi_app. Qed.
Check C18_parts_compose :
  forall (E : Env) (s1 s2 : list section) (inputs : list (list str)) (seps : list str) (idx : nat),
  spec_fwi E (s1 ++ s2) inputs seps idx =
    bind (spec_fwi E s1 inputs seps idx) (fun a =>
      omap (app a) (spec_fwi E s2 inputs seps (idx + length (filter is_sec s1)))).
Print Assumptions C18_parts_compose.

Theorem C18_later_slots_do_not_matter :
  forall (E : Env) (s1 : list section) (inputs inputs' : list (list str)) (seps seps' : list str) (idx : nat),
  (forall k, (k < idx + length (filter is_sec s1))%nat ->
     nth k inputs [] = nth k inputs' [] /\ nth k seps [32%N] = nth k seps' [32%N]) ->
  spec_fwi E s1 inputs seps idx = spec_fwi E s1 inputs' seps' idx.
Proof. exact fwi_later_slots_do_not_matter. Qed.
Check C18_later_slots_do_not_matter :
  forall (E : Env) (s1 : list section) (inputs inputs' : list (list str)) (seps seps' : list str) (idx : nat),
  (forall k, (k < idx + length (filter is_sec s1))%nat ->
     nth k inputs [] = nth k inputs' [] /\ nth k seps [32%N] = nth k seps' [32%N]) ->
  spec_fwi E s1 inputs seps idx = spec_fwi E s1 inputs' seps' idx.
Print Assumptions C18_later_slots_do_not_matter.

(* an entry is only ever served for the very input and operations it was computed for *)
Theorem C18_memo_isolation :
  forall (E : Env) (m : memo) (i : str) (ops : list op) (out : str),
  MemoInv E m -> spec_run E ops i = Ok out -> MemoInv E (((i, ops), out) :: m).
Proof. exact MemoInv_cons. Qed.
Check C18_memo_isolation :
  forall (E : Env) (m : memo) (i : str) (ops : list op) (out : str),
  MemoInv E m -> spec_run E ops i = Ok out -> MemoInv E (((i, ops), out) :: m).
Print Assumptions C18_memo_isolation.

