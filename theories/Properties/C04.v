(* C04 -- mixed templates compose: literals verbatim, each section evaluated independently.
   GENERATED from Properties/src/C04.props by tools/mkprops.py; property theorems only. *)
From SP Require Import Model.Template Model.Scanner.
From SP Require Import Proofs.ImplSpec Proofs.TemplateP Proofs.TemplateLaws Proofs.MapSepP Proofs.ScannerP Proofs.FormatLawsP.
From SP Require Import Model.Syntax Proofs.BlockSynP Proofs.FullSynP Proofs.MultiSynP.

(* format() -- both copies of the section loop, the per-call memo, the fast split
   path -- returns the literals verbatim and in order with each section replaced
   by exactly what that section alone produces on the same input (spec_format is
   mapM seg_out then concat); the first failing section fails the call *)
Theorem C04_compose :
  forall (E : Env), L1 replace_meta E ->
  forall (t : template) (x : str),
    run_pure (impl_format E t x) = spec_format E (t_sections t) x.
Proof. exact format_refines. Qed.
Check C04_compose :
  forall (E : Env), L1 replace_meta E ->
  forall (t : template) (x : str),
    run_pure (impl_format E t x) = spec_format E (t_sections t) x.
Print Assumptions C04_compose.

(* the multi-template scanner finds exactly the segments a template was assembled
   from: literal text (anything without an opening brace) verbatim, ${...} text kept
   literally and merged into the surrounding literal, each {...} section (brace
   balanced in the escape-aware sense) as it parses on its own; the debug flag is
   the disjunction of the sections' markers *)
Theorem C04_scan_assemble :
  forall (segs : list seg), segs_ok scan_init segs ->
  parse_multi_template (assemble segs)
  = let st := fold_left seg_next segs scan_init in Ok (frev (flush_literal st), st_dbg st).
Proof. exact scan_assemble. Qed.
Check C04_scan_assemble :
  forall (segs : list seg), segs_ok scan_init segs ->
  parse_multi_template (assemble segs)
  = let st := fold_left seg_next segs scan_init in Ok (frev (flush_literal st), st_dbg st).
Print Assumptions C04_scan_assemble.

Theorem C04_scan_literal :
  forall (l : str) (st : sstate), st_ok st -> existsb (N.eqb c_lbrace) l = false ->
  fold_left scan_step l st = with_lit st (rev l ++ st_lit_rev st).
Proof. exact scan_literal. Qed.
Check C04_scan_literal :
  forall (l : str) (st : sstate), st_ok st -> existsb (N.eqb c_lbrace) l = false ->
  fold_left scan_step l st = with_lit st (rev l ++ st_lit_rev st).
Print Assumptions C04_scan_literal.

Theorem C04_scan_section :
  forall (st : sstate) (w : str) (ops : list op) (d : bool), st_ok st -> not_after_dollar st ->
  single_scan w 0 false = Some (0%nat, false) ->
  parse_template (c_lbrace :: w ++ [c_rbrace]) = Ok (ops, d) ->
  fold_left scan_step (c_lbrace :: w ++ [c_rbrace]) st = after_section st ops d.
Proof. exact scan_section. Qed.
Check C04_scan_section :
  forall (st : sstate) (w : str) (ops : list op) (d : bool), st_ok st -> not_after_dollar st ->
  single_scan w 0 false = Some (0%nat, false) ->
  parse_template (c_lbrace :: w ++ [c_rbrace]) = Ok (ops, d) ->
  fold_left scan_step (c_lbrace :: w ++ [c_rbrace]) st = after_section st ops d.
Print Assumptions C04_scan_section.

Theorem C04_concatenation :
  forall (E : Env) (s1 s2 : list section) (x : str),
  spec_format E (s1 ++ s2) x =
    bind (spec_format E s1 x) (fun a => omap (fun b => a ++ b) (spec_format E s2 x)).
Proof. exact spec_format_app. Qed.
Check C04_concatenation :
  forall (E : Env) (s1 s2 : list section) (x : str),
  spec_format E (s1 ++ s2) x =
    bind (spec_format E s1 x) (fun a => omap (fun b => a ++ b) (spec_format E s2 x)).
Print Assumptions C04_concatenation.

Theorem C04_literal_verbatim :
  forall (E : Env) (l x : str), spec_format E [Lit l] x = Ok l.
Proof. exact spec_format_literal. Qed.
Check C04_literal_verbatim :
  forall (E : Env) (l x : str), spec_format E [Lit l] x = Ok l.
Print Assumptions C04_literal_verbatim.

Theorem C04_section_alone :
  forall (E : Env) (ops : list op) (x : str), spec_format E [Sec ops] x = spec_run E ops x.
Proof. exact spec_format_section. Qed.
Check C04_section_alone :
  forall (E : Env) (ops : list op) (x : str), spec_format E [Sec ops] x = spec_run E ops x.
Print Assumptions C04_section_alone.

Theorem C04_single_vs_embedded :
  forall (E : Env) (L R : str) (ops : list op) (x : str),
  spec_format E [Lit L; Sec ops; Lit R] x = omap (fun r => L ++ r ++ R) (spec_format E [Sec ops] x).
Proof. exact single_vs_embedded. Qed.
Check C04_single_vs_embedded :
  forall (E : Env) (L R : str) (ops : list op) (x : str),
  spec_format E [Lit L; Sec ops; Lit R] x = omap (fun r => L ++ r ++ R) (spec_format E [Sec ops] x).
Print Assumptions C04_single_vs_embedded.

Theorem C04_section_error_fails_the_call :
  forall (E : Env) (s1 : list section) (ops : list op) (s2 : list section) (x : str),
  spec_run E ops x = Err -> (forall s, In s s1 -> exists o, seg_out E x s = Ok o) ->
  spec_format E (s1 ++ Sec ops :: s2) x = Err.
Proof. exact section_error_fails. Qed.
Check C04_section_error_fails_the_call :
  forall (E : Env) (s1 : list section) (ops : list op) (s2 : list section) (x : str),
  spec_run E ops x = Err -> (forall s, In s s1 -> exists o, seg_out E x s = Ok o) ->
  spec_format E (s1 ++ Sec ops :: s2) x = Err.
Print Assumptions C04_section_error_fails_the_call.

(* a template without sections yields its literals, verbatim and in order, whatever the input *)
Theorem C04_literals_only :
  forall (E : Env) (secs : list section) (x : str),
  forallb (fun s => negb (is_sec s)) secs = true ->
  spec_format E secs x = Ok (concat (map lit_text secs)).
Proof. exact literals_only. Qed.
Check C04_literals_only :
  forall (E : Env) (secs : list section) (x : str),
  forallb (fun s => negb (is_sec s)) secs = true ->
  spec_format E secs x = Ok (concat (map lit_text secs)).
Print Assumptions C04_literals_only.

(* the formatted text is the concatenation of one piece per part, each piece being
   exactly what that part yields alone on the input *)
Theorem C04_result_is_the_pieces :
  forall (E : Env) (secs : list section) (x out : str),
  spec_format E secs x = Ok out <->
  exists pieces, Forall2 (fun s p => seg_out E x s = Ok p) secs pieces /\ out = concat pieces.
Proof. exact format_ok_iff. Qed.
Check C04_result_is_the_pieces :
  forall (E : Env) (secs : list section) (x out : str),
  spec_format E secs x = Ok out <->
  exists pieces, Forall2 (fun s p => seg_out E x s = Ok p) secs pieces /\ out = concat pieces.
Print Assumptions C04_result_is_the_pieces.

(* nothing but the sections' own results reaches the output *)
Theorem C04_only_section_results_matter :
  forall (E : Env) (secs : list section) (x y : str),
  (forall ops, In (Sec ops) secs -> spec_run E ops x = spec_run E ops y) ->
  spec_format E secs x = spec_format E secs y.
Proof. exact format_depends_on_section_results. Qed.
Check C04_only_section_results_matter :
  forall (E : Env) (secs : list section) (x y : str),
  (forall ops, In (Sec ops) secs -> spec_run E ops x = spec_run E ops y) ->
  spec_format E secs x = spec_format E secs y.
Print Assumptions C04_only_section_results_matter.

(* inside one call a memo hit returns what recomputation would: the key compares
   the input and the operations themselves *)
Theorem C04_memo_unobservable :
  forall (E : Env), L1 replace_meta E ->
  forall (dbg : bool) (x : str) (ops : list op) (m : memo),
    MemoInv E m ->
    fst (run_pure (apply_section E dbg x ops m)) = spec_run E ops x
    /\ MemoInv E (snd (run_pure (apply_section E dbg x ops m))).
Proof. exact apply_section_refines. Qed.
Check C04_memo_unobservable :
  forall (E : Env), L1 replace_meta E ->
  forall (dbg : bool) (x : str) (ops : list op) (m : memo),
    MemoInv E m ->
    fst (run_pure (apply_section E dbg x ops m)) = spec_run E ops x
    /\ MemoInv E (snd (run_pure (apply_section E dbg x ops m))).
Print Assumptions C04_memo_unobservable.

Theorem C04_fast_split_unobservable :
  forall (E : Env) (x sep : str) (r : range),
  Ok (run_pure (fast_single_split x sep r)) = spec_run E [Split sep r] x.
Proof. exact fast_single_split_refines. Qed.
Check C04_fast_split_unobservable :
  forall (E : Env) (x sep : str) (r : range),
  Ok (run_pure (fast_single_split x sep r)) = spec_run E [Split sep r] x.
Print Assumptions C04_fast_split_unobservable.

Example C04_ex_scanner :
  omap t_sections (template_parse [97; 36; 123; 120; 125; 32; 123; 117; 112; 112; 101; 114; 125; 125; 123; 125]%N)
  = Ok [Lit [97; 36; 123; 120; 125; 32]%N; Sec [Upper]; Lit [125]%N; Sec []].
Proof. vm_compute. reflexivity. Qed.

(* C04_scan_assemble without its parsing premise: literal text, ${...} groups and blocks
   WRITTEN in any documented spelling (all twenty operations; C02) are found again by the
   scanner, each block parsed to exactly its operations *)
Theorem C04_scan_of_written_segments :
  forall (ps : list pseg), psegs_ok scan_init ps ->
  parse_multi_template (assemble (map to_seg ps))
  = let st := fold_left seg_next (map to_seg ps) scan_init in Ok (frev (flush_literal st), st_dbg st).
Proof. exact multi_template_of_spelled_segments. Qed.
Check C04_scan_of_written_segments :
  forall (ps : list pseg), psegs_ok scan_init ps ->
  parse_multi_template (assemble (map to_seg ps))
  = let st := fold_left seg_next (map to_seg ps) scan_init in Ok (frev (flush_literal st), st_dbg st).
Print Assumptions C04_scan_of_written_segments.

(* the common shape  text {block} text {block} ... : text free of "{" and "$" *)
Theorem C04_text_and_blocks :
  forall (ps : list piece), Forall piece_ok ps ->
  parse_multi_template (assemble (map to_seg (map piece_seg ps)))
  = let st := fold_left seg_next (map to_seg (map piece_seg ps)) scan_init in Ok (frev (flush_literal st), st_dbg st).
Proof. exact template_of_pieces. Qed.
Check C04_text_and_blocks :
  forall (ps : list piece), Forall piece_ok ps ->
  parse_multi_template (assemble (map to_seg (map piece_seg ps)))
  = let st := fold_left seg_next (map to_seg (map piece_seg ps)) scan_init in Ok (frev (flush_literal st), st_dbg st).
Print Assumptions C04_text_and_blocks.

Check template_of_pieces_example.
