(* C19 -- strip_ansi removes escape sequences and nothing else.
   GENERATED from Properties/src/C19.props by tools/mkprops.py; property theorems only.
   Model/Ansi.v is a transcription of vt-push-parser 0.13.1 (as driven by
   fast-strip-ansi 0.13.1) tied to the crates by the correspondence run. *)
From SP Require Import Model.Ansi Model.Spec Model.Impl.
From SP Require Import Proofs.AnsiP Proofs.ImplSpec Proofs.MapSepP.

(* any number of well-formed sequences (CSI with arbitrary parameters and
   intermediates, OSC with BEL or ST, two- and three-character escapes, single
   shifts, DCS/SOS/PM/APC strings) inserted at arbitrary character boundaries of
   arbitrary control-free Unicode text: exactly the text comes out *)
Theorem C19_strip_decorate :
  forall (items : list item), items_ok items = true -> strip_str (decorate items) = texts items.
Proof. exact strip_decorate. Qed.
Check C19_strip_decorate :
  forall (items : list item), items_ok items = true -> strip_str (decorate items) = texts items.
Print Assumptions C19_strip_decorate.

Theorem C19_clean_text_unchanged :
  forall (s : str), valid s = true -> control_free s = true -> strip_str s = s.
Proof. exact strip_clean_id. Qed.
Check C19_clean_text_unchanged :
  forall (s : str), valid s = true -> control_free s = true -> strip_str s = s.
Print Assumptions C19_clean_text_unchanged.

(* for EVERY valid string, not only decorated ones *)
Theorem C19_idempotent :
  forall (s : str), valid s = true -> strip_str (strip_str s) = strip_str s.
Proof. exact strip_idempotent. Qed.
Check C19_idempotent :
  forall (s : str), valid s = true -> strip_str (strip_str s) = strip_str s.
Print Assumptions C19_idempotent.

Theorem C19_output_is_clean :
  forall (s : str), valid s = true -> valid (strip_str s) = true /\ control_free (strip_str s) = true.
Proof. exact strip_output_ok. Qed.
Check C19_output_is_clean :
  forall (s : str), valid s = true -> valid (strip_str s) = true /\ control_free (strip_str s) = true.
Print Assumptions C19_output_is_clean.

(* the wrapper's borrowed-input shortcut and per-chunk lossy decoding are invisible *)
Theorem C19_shortcut_and_chunking_unobservable :
  forall (s : str), valid s = true -> strip_str s = utf8_decode (strip_bytes (utf8 s)).
Proof. exact strip_str_bytes. Qed.
Check C19_shortcut_and_chunking_unobservable :
  forall (s : str), valid s = true -> strip_str s = utf8_decode (strip_bytes (utf8 s)).
Print Assumptions C19_shortcut_and_chunking_unobservable.

Theorem C19_utf8_roundtrip :
  forall (s : str), valid s = true -> utf8_decode (utf8 s) = s.
Proof. exact decode_utf8_id. Qed.
Check C19_utf8_roundtrip :
  forall (s : str), valid s = true -> utf8_decode (utf8 s) = s.
Print Assumptions C19_utf8_roundtrip.

(* the operation, at top level and (through C08) inside map: string in, stripped
   string out, for the engine whose strip_ansi is this function; lists are rejected *)
Theorem C19_operation_applies_it :
  forall (E : Env), (forall s, strip_ansi E s = strip_str s) ->
  forall (v : value) (sep : str),
    spec_step E StripAnsi v sep = match v with VStr s => Ok (VStr (strip_str s), sep) | VList _ => Err end.
Proof. exact (fun E => strip_ansi_step E strip_str). Qed.
Check C19_operation_applies_it :
  forall (E : Env), (forall s, strip_ansi E s = strip_str s) ->
  forall (v : value) (sep : str),
    spec_step E StripAnsi v sep = match v with VStr s => Ok (VStr (strip_str s), sep) | VList _ => Err end.
Print Assumptions C19_operation_applies_it.

