(* C03 -- parsing and formatting are total: a value or an error, never a panic.
   GENERATED from Properties/src/C03.props by tools/mkprops.py; property theorems only. *)
From SP Require Import Model.Scanner Model.Template.
From SP Require Import Proofs.PegP Proofs.ParseP Proofs.ImplSpec Proofs.TemplateP Proofs.TemplateLaws Proofs.EffP Proofs.RangeP Proofs.Corollaries.

(* Template::parse on ANY string returns a value or an error: every unwrap() of
   parser.rs is justified against the grammar regenerated from template.pest (a
   verified static analysis of the token structure, evaluated on that grammar),
   numeric conversions return errors, the scanners are total *)
Theorem C03_parse_total :
  forall (s : str), template_parse s <> Panic.
Proof. exact template_parse_total. Qed.
Check C03_parse_total :
  forall (s : str), template_parse s <> Panic.
Print Assumptions C03_parse_total.

Theorem C03_parse_with_debug_total :
  forall (s : str) (d : option bool), template_parse_with_debug s d <> Panic.
Proof. exact template_parse_with_debug_total. Qed.
Check C03_parse_with_debug_total :
  forall (s : str) (d : option bool), template_parse_with_debug s d <> Panic.
Print Assumptions C03_parse_with_debug_total.

(* the static check that carries the proof: it is re-evaluated on Gen/Grammar.v on every run *)
Theorem C03_grammar_supports_every_unwrap :
  all_rules chk r_template = true.
Proof. exact grammar_checked. Qed.
Check C03_grammar_supports_every_unwrap :
  all_rules chk r_template = true.
Print Assumptions C03_grammar_supports_every_unwrap.

(* formatting any input with any template, tracing on or off, through the
   cache-free semantics and through any state of the process-wide caches *)
Theorem C03_format_total :
  forall (E : Env), L1 replace_meta E ->
  forall (t : template) (x : str),
    run_pure (impl_format E t x) <> Panic
    /\ forall c, CacheInv E c -> fst (run_st (impl_format E t x) c) <> Panic.
Proof. exact format_never_panics. Qed.
Check C03_format_total :
  forall (E : Env), L1 replace_meta E ->
  forall (t : template) (x : str),
    run_pure (impl_format E t x) <> Panic
    /\ forall c, CacheInv E c -> fst (run_st (impl_format E t x) c) <> Panic.
Print Assumptions C03_format_total.

Theorem C03_format_with_inputs_total :
  forall (E : Env), L1 replace_meta E ->
  forall (t : template) (inputs : list (list str)) (seps : list str),
    run_pure (impl_format_with_inputs E t inputs seps) <> Panic.
Proof. exact format_with_inputs_never_panics. Qed.
Check C03_format_with_inputs_total :
  forall (E : Env), L1 replace_meta E ->
  forall (t : template) (inputs : list (list str)) (seps : list str),
    run_pure (impl_format_with_inputs E t inputs seps) <> Panic.
Print Assumptions C03_format_with_inputs_total.

(* with checked isize arithmetic and real slice indexing nothing overflows or goes
   out of bounds, for every bound the parser can produce *)
Theorem C03_index_arithmetic_total :
  forall (T : Type) (l : list T) (r : range),
  range_in_isize r = true -> (Z.of_nat (length l) <= isize_max)%Z ->
  apply_range l r = Ok (apply_range_m l r).
Proof. exact @apply_range_checked_is_m. Qed.
Check C03_index_arithmetic_total :
  forall (T : Type) (l : list T) (r : range),
  range_in_isize r = true -> (Z.of_nat (length l) <= isize_max)%Z ->
  apply_range l r = Ok (apply_range_m l r).
Print Assumptions C03_index_arithmetic_total.

(* the tracer's previews are total (they truncate at character boundaries) *)
Theorem C03_tracer_total :
  forall (v : value), trace_value v = Ok tt.
Proof. exact trace_value_ok. Qed.
Check C03_tracer_total :
  forall (v : value), trace_value v = Ok tt.
Print Assumptions C03_tracer_total.

Example C03_ex :
  template_parse [123; 57; 57; 57; 57; 57; 57; 57; 57; 57; 57; 57; 57; 57; 57; 57; 57; 57; 57; 57; 57; 125]%N = Err
  /\ is_ok (template_parse [123; 45; 57; 50; 50; 51; 51; 55; 50; 48; 51; 54; 56; 53; 52; 55; 55; 53; 56; 48; 56; 125]%N) = true
  /\ template_parse [123; 97; 112; 112; 101; 110; 100; 58; 92; 125; 125]%N
     = Ok {| t_raw := [123; 97; 112; 112; 101; 110; 100; 58; 92; 125; 125]%N; t_sections := [Sec [Append [125%N]]]; t_debug := false |}.
Proof. vm_compute. repeat split. Qed.
