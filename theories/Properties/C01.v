(* C01 -- pipeline results equal the documented left-to-right semantics.
   GENERATED from Properties/src/C01.props by tools/mkprops.py; property theorems only. *)
From SP Require Import Model.Impl Model.Spec Model.Typing Model.Template.
From SP Require Import Proofs.ImplSpec Proofs.TypingP Proofs.ErrP Proofs.TemplateP Proofs.ComposeP Proofs.Toy.

(* Whatever the debug flag, and whatever the regex engine / case mapping / ANSI
   stripper plugged in (subject to the literal law L1, which is what makes the
   replace shortcut sound), the cache-free meaning of the code's interpreter
   -- all fast paths, the shortcut, the tracer included -- is the documented
   left-to-right semantics, as an outcome: same text or same error, never a panic. *)
Theorem C01_refines :
  forall (E : Env), L1 replace_meta E ->
  forall (dbg : bool) (ops : list op) (x : str),
    run_pure (impl_run E dbg ops x) = spec_run E ops x.
Proof. exact impl_run_refines. Qed.
Check C01_refines :
  forall (E : Env), L1 replace_meta E ->
  forall (dbg : bool) (ops : list op) (x : str),
    run_pure (impl_run E dbg ops x) = spec_run E ops x.
Print Assumptions C01_refines.

(* the same through the template object: single block or mixed with literals,
   the single-split fast path and the per-call memo included *)
Theorem C01_format_refines :
  forall (E : Env), L1 replace_meta E ->
  forall (t : template) (x : str),
    run_pure (impl_format E t x) = spec_format E (t_sections t) x.
Proof. exact format_refines. Qed.
Check C01_format_refines :
  forall (E : Env), L1 replace_meta E ->
  forall (t : template) (x : str),
    run_pure (impl_format E t x) = spec_format E (t_sections t) x.
Print Assumptions C01_format_refines.

(* an operation fails exactly when it receives a kind it does not accept, or
   uses an invalid regular expression, or (map) the sub-pipeline fails that way
   on some item *)
Theorem C01_error_iff_step :
  forall (E : Env) (o : op) (v : value) (sep : str),
  spec_step E o v sep = Err <->
  ( kind_step (kind_of v) o = None
    \/ (exists p, regex_used o v = Some p /\ re_valid E p = false)
    \/ (exists body l item, o = Map body /\ v = VList l /\ In item l /\ spec_run E body item = Err) ).
Proof. exact step_err_iff. Qed.
Check C01_error_iff_step :
  forall (E : Env) (o : op) (v : value) (sep : str),
  spec_step E o v sep = Err <->
  ( kind_step (kind_of v) o = None
    \/ (exists p, regex_used o v = Some p /\ re_valid E p = false)
    \/ (exists body l item, o = Map body /\ v = VList l /\ In item l /\ spec_run E body item = Err) ).
Print Assumptions C01_error_iff_step.

(* a pipeline fails exactly when some operation that is reached fails; the error
   carries no partial text (Err has no payload) *)
Theorem C01_error_iff_run :
  forall (E : Env) (ops : list op) (v : value) (sep : str),
  spec_steps E ops v sep = Err <->
  exists pre o post v' sep', ops = pre ++ o :: post /\
    (fix run (ops : list op) (v : value) (sep : str) : outcome (value * str) :=
       match ops with
       | [] => Ok (v, sep)
       | o :: ops' => bind (spec_step E o v sep) (fun r => run ops' (fst r) (snd r))
       end) pre v sep = Ok (v', sep') /\ spec_step E o v' sep' = Err.
Proof. exact run_err_iff. Qed.
Check C01_error_iff_run :
  forall (E : Env) (ops : list op) (v : value) (sep : str),
  spec_steps E ops v sep = Err <->
  exists pre o post v' sep', ops = pre ++ o :: post /\
    (fix run (ops : list op) (v : value) (sep : str) : outcome (value * str) :=
       match ops with
       | [] => Ok (v, sep)
       | o :: ops' => bind (spec_step E o v sep) (fun r => run ops' (fst r) (snd r))
       end) pre v sep = Ok (v', sep') /\ spec_step E o v' sep' = Err.
Print Assumptions C01_error_iff_run.

Theorem C01_never_panics :
  forall (E : Env) (ops : list op) (v : value) (sep : str), spec_steps E ops v sep <> Panic.
Proof. exact spec_steps_no_panic. Qed.
Check C01_never_panics :
  forall (E : Env) (ops : list op) (v : value) (sep : str), spec_steps E ops v sep <> Panic.
Print Assumptions C01_never_panics.

(* a pipeline is its prefix followed by its suffix: the value and the separator
   after the prefix are all the suffix sees *)
Theorem C01_left_to_right :
  forall (E : Env) (a b : list op) (v : value) (sep : str),
  spec_steps E (a ++ b) v sep = bind (spec_fold E a v sep) (fun r => spec_steps E b (fst r) (snd r)).
Proof. exact spec_steps_app. Qed.
Check C01_left_to_right :
  forall (E : Env) (a b : list op) (v : value) (sep : str),
  spec_steps E (a ++ b) v sep = bind (spec_fold E a v sep) (fun r => spec_steps E b (fst r) (snd r)).
Print Assumptions C01_left_to_right.

Theorem C01_one_operation_at_a_time :
  forall (E : Env) (ops : list op) (o : op) (v : value) (sep : str),
  spec_fold E (ops ++ [o]) v sep = bind (spec_fold E ops v sep) (fun r => spec_step E o (fst r) (snd r)).
Proof. exact spec_fold_snoc. Qed.
Check C01_one_operation_at_a_time :
  forall (E : Env) (ops : list op) (o : op) (v : value) (sep : str),
  spec_fold E (ops ++ [o]) v sep = bind (spec_fold E ops v sep) (fun r => spec_step E o (fst r) (snd r)).
Print Assumptions C01_one_operation_at_a_time.

Theorem C01_result_is_rendered_final_state :
  forall (E : Env) (ops : list op) (v : value) (sep : str),
  spec_steps E ops v sep = omap (fun r => render (fst r) (snd r)) (spec_fold E ops v sep).
Proof. exact spec_steps_is_render_of_fold. Qed.
Check C01_result_is_rendered_final_state :
  forall (E : Env) (ops : list op) (v : value) (sep : str),
  spec_steps E ops v sep = omap (fun r => render (fst r) (snd r)) (spec_fold E ops v sep).
Print Assumptions C01_result_is_rendered_final_state.

Theorem C01_prefix_error_fails_the_call :
  forall (E : Env) (a b : list op) (v : value) (sep : str),
  spec_fold E a v sep = Err -> spec_steps E (a ++ b) v sep = Err.
Proof. exact prefix_error_fails. Qed.
Check C01_prefix_error_fails_the_call :
  forall (E : Env) (a b : list op) (v : value) (sep : str),
  spec_fold E a v sep = Err -> spec_steps E (a ++ b) v sep = Err.
Print Assumptions C01_prefix_error_fails_the_call.

(* a prefix that hands on a string (separator untouched) can be run first as a
   pipeline of its own, and the suffix run on its output *)
Theorem C01_prefix_then_suffix :
  forall (E : Env) (a b : list op) (x y : str),
  spec_fold E a (VStr x) default_sep = Ok (VStr y, default_sep) ->
  spec_run E a x = Ok y /\ spec_run E (a ++ b) x = spec_run E b y.
Proof. exact run_prefix_then_suffix. Qed.
Check C01_prefix_then_suffix :
  forall (E : Env) (a b : list op) (x y : str),
  spec_fold E a (VStr x) default_sep = Ok (VStr y, default_sep) ->
  spec_run E a x = Ok y /\ spec_run E (a ++ b) x = spec_run E b y.
Print Assumptions C01_prefix_then_suffix.

(* non-vacuity: an 8-operation pipeline with a map body on a non-ASCII,
   multi-line input under a concrete toy engine *)
Example C01_ex_pipeline :
  spec_run toy_env
    [Split [10%N] (Range None None false); Map [Trim [] TBoth; Upper; Append [33%N]];
     Filter [65%N]; Sort Desc; Slice (Range (Some 0%Z) (Some 5%Z) false); Unique; Reverse; Join [45%N; 233%N]]
    [32; 97; 233; 10; 98; 97; 10; 99; 10; 97; 233; 32]%N
  = Ok [65; 233; 33; 45; 233; 66; 65; 33]%N
  /\ run_pure (impl_run toy_env true
    [Split [10%N] (Range None None false); Map [Trim [] TBoth; Upper; Append [33%N]];
     Filter [65%N]; Sort Desc; Slice (Range (Some 0%Z) (Some 5%Z) false); Unique; Reverse; Join [45%N; 233%N]]
    [32; 97; 233; 10; 98; 97; 10; 99; 10; 97; 233; 32]%N)
  = Ok [65; 233; 33; 45; 233; 66; 65; 33]%N
  /\ spec_run toy_env [Split [44%N] (Range None None false); Upper] [97%N] = Err
  /\ spec_run toy_env [Filter [40%N]] [97%N] = Err.
Proof. vm_compute. repeat split. Qed.

(* non-vacuity of C01_prefix_then_suffix: a two-operation string prefix *)
Example C01_ex_prefix :
  spec_fold toy_env [Upper; Append [33%N]] (VStr [97; 98]%N) default_sep = Ok (VStr [65; 66; 33]%N, default_sep).
Proof. vm_compute. reflexivity. Qed.
