(* C09 -- split and join are inverse; final lists render with the last separator.
   GENERATED from Properties/src/C09.props by tools/mkprops.py; property theorems only. *)
From SP Require Import Model.Impl Model.Spec Model.Template.
From SP Require Import Proofs.ImplSpec Proofs.SplitP Proofs.SplitInvP Proofs.MapSepP Proofs.TemplateP.

(* for EVERY text and EVERY separator: empty, multi-character, non-ASCII,
   self-overlapping *)
Theorem C09_join_split_id :
  forall (s sep : str), join sep (split s sep) = s.
Proof. exact join_split_id. Qed.
Check C09_join_split_id :
  forall (s sep : str), join sep (split s sep) = s.
Print Assumptions C09_join_split_id.

Theorem C09_join_split_is_replace :
  forall (s sep j : str), join j (split s sep) = replace_plain s sep j.
Proof. exact join_split_is_replace. Qed.
Check C09_join_split_is_replace :
  forall (s sep j : str), join j (split s sep) = replace_plain s sep j.
Print Assumptions C09_join_split_is_replace.

(* the one-byte-separator fast path agrees with plain splitting *)
Theorem C09_memchr_path_is_split :
  forall (s : str) (c : N), split_char s c = split s [c].
Proof. exact split_char_is_split. Qed.
Check C09_memchr_path_is_split :
  forall (s : str) (c : N), split_char s c = split s [c].
Print Assumptions C09_memchr_path_is_split.

Theorem C09_cached_split_is_split :
  forall (s sep : str), run_pure (get_cached_split s sep) = split s sep.
Proof. exact run_pure_get_cached_split. Qed.
Check C09_cached_split_is_split :
  forall (s sep : str), run_pure (get_cached_split s sep) = split s sep.
Print Assumptions C09_cached_split_is_split.

(* the other direction: a non-empty list whose items are free of the (one-character)
   separator comes back from join-then-split; the side condition is necessary
   (split_join_needs_free_items) *)
Theorem C09_split_join_id :
  forall (c : N) (l : list str),
  l <> [] -> forallb (fun x => negb (mem_cp c x)) l = true -> split (join [c] l) [c] = l.
Proof. exact split_join_id. Qed.
Check C09_split_join_id :
  forall (c : N) (l : list str),
  l <> [] -> forallb (fun x => negb (mem_cp c x)) l = true -> split (join [c] l) [c] = l.
Print Assumptions C09_split_join_id.

(* one piece more than there are separator characters *)
Theorem C09_piece_count :
  forall (c : N) (s : str), length (split s [c]) = S (length (filter (N.eqb c) s)).
Proof. exact split_char_count. Qed.
Check C09_piece_count :
  forall (c : N) (s : str), length (split s [c]) = S (length (filter (N.eqb c) s)).
Print Assumptions C09_piece_count.

(* a pipeline that ends in a list is rendered exactly as if a join with the most
   recent split/join separator (computed from the pipeline text alone) had been
   written explicitly *)
Theorem C09_implicit_join :
  forall (E : Env) (ops : list op) (x : str),
  spec_run E (ops ++ [Join (last_sep ops)]) x = spec_run E ops x.
Proof. exact implicit_join. Qed.
Check C09_implicit_join :
  forall (E : Env) (ops : list op) (x : str),
  spec_run E (ops ++ [Join (last_sep ops)]) x = spec_run E ops x.
Print Assumptions C09_implicit_join.

Theorem C09_empty_list_renders_empty :
  forall (sep : str), render (VList []) sep = [].
Proof. exact render_empty_list. Qed.
Check C09_empty_list_renders_empty :
  forall (sep : str), render (VList []) sep = [].
Print Assumptions C09_empty_list_renders_empty.

Theorem C09_split_list_flattens :
  forall (E : Env) (sp : str) (a b : option Z) (inc : bool) (l : list str) (sep : str),
  spec_step E (Split sp (Range a b inc)) (VList l) sep
  = Ok (VList (select (Range a b inc) (flat_map (fun s => split s sp) l)), sp).
Proof. exact split_list_flattens. Qed.
Check C09_split_list_flattens :
  forall (E : Env) (sp : str) (a b : option Z) (inc : bool) (l : list str) (sep : str),
  spec_step E (Split sp (Range a b inc)) (VList l) sep
  = Ok (VList (select (Range a b inc) (flat_map (fun s => split s sp) l)), sp).
Print Assumptions C09_split_list_flattens.

Theorem C09_roundtrip_pipeline :
  forall (E : Env) (sp x : str), spec_run E [Split sp (Range None None false)] x = Ok x.
Proof. exact split_all_roundtrip. Qed.
Check C09_roundtrip_pipeline :
  forall (E : Env) (sp x : str), spec_run E [Split sp (Range None None false)] x = Ok x.
Print Assumptions C09_roundtrip_pipeline.

Theorem C09_split_join_pipeline :
  forall (E : Env) (sp j x : str),
  spec_run E [Split sp (Range None None false); Join j] x = Ok (replace_plain x sp j).
Proof. exact split_join_is_replace. Qed.
Check C09_split_join_pipeline :
  forall (E : Env) (sp j x : str),
  spec_run E [Split sp (Range None None false); Join j] x = Ok (replace_plain x sp j).
Print Assumptions C09_split_join_pipeline.

(* the single-split section fast path re-implements split + range + join faithfully *)
Theorem C09_fast_single_split :
  forall (E : Env) (x sep : str) (r : range),
  Ok (run_pure (fast_single_split x sep r)) = spec_run E [Split sep r] x.
Proof. exact fast_single_split_refines. Qed.
Check C09_fast_single_split :
  forall (E : Env) (x sep : str) (r : range),
  Ok (run_pure (fast_single_split x sep r)) = spec_run E [Split sep r] x.
Print Assumptions C09_fast_single_split.

Theorem C09_code_does_this :
  forall (E : Env), L1 replace_meta E ->
  forall (dbg : bool) (ops : list op) (x : str),
    run_pure (impl_run E dbg ops x) = spec_run E ops x.
Proof. exact impl_run_refines. Qed.
Check C09_code_does_this :
  forall (E : Env), L1 replace_meta E ->
  forall (dbg : bool) (ops : list op) (x : str),
    run_pure (impl_run E dbg ops x) = spec_run E ops x.
Print Assumptions C09_code_does_this.

Example C09_ex :
  split [97; 97; 97; 97; 97]%N [97; 97]%N = [[]; []; [97]]%N
  /\ split [97; 98]%N [] = [[]; [97]; [98]; []]%N
  /\ split [] [44]%N = [[]]
  /\ replace_plain [97; 98]%N [] [45]%N = [45; 97; 45; 98; 45]%N
  /\ last_sep [Split [44%N] (Range None None false); Sort Asc; Join [45%N]; Split [59%N] (Range None None false); Unique] = [59%N].
Proof. vm_compute. repeat split. Qed.
