(* C11 -- any text can be passed as a literal argument through the documented escapes.
   GENERATED from Properties/src/C11.props by tools/mkprops.py; property theorems only. *)
From SP Require Import Model.Syntax Model.Scanner.
From SP Require Import Proofs.SyntaxP Proofs.ArgP Proofs.NumP Proofs.RangeSynP Proofs.OpSynP Proofs.RawArgP.

(* for EVERY string -- any mixture of backslashes, unbalanced braces, colons,
   pipes, newlines, tabs and multi-byte characters -- the decoder applied to the
   documented escaping gives back exactly that string, character for character.
   (No well-formedness premise: esc is total.) *)
Theorem C11_escape_roundtrip :
  forall (s : str), process_arg (esc s) = s.
Proof. exact process_arg_esc. Qed.
Check C11_escape_roundtrip :
  forall (s : str), process_arg (esc s) = s.
Print Assumptions C11_escape_roundtrip.

(* the escaped text never shows a raw : | { } and every backslash in it escapes
   the next character, which is why the argument rules of the grammar read all of
   it and nothing more (the per-rule scanning is compared with the real parser on
   every run) *)
Theorem C11_escaped_text_has_no_raw_special :
  forall (s : str), no_raw_special (esc s) = true.
Proof. exact esc_no_raw_special. Qed.
Check C11_escaped_text_has_no_raw_special :
  forall (s : str), no_raw_special (esc s) = true.
Print Assumptions C11_escaped_text_has_no_raw_special.

(* at the level of the grammar regenerated from template.pest: the simple_arg rule
   applied to the escaped spelling of ANY text, followed by the end of the argument,
   yields exactly one token whose text is that spelling *)
Theorem C11_simple_arg_reads_the_escaped_text :
  forall (s rest : str), stops rest ->
  run r_simple_arg false (esc s ++ rest) = Some (esc s, [Node (Some R_simple_arg) (esc s) []], rest)
  /\ process_arg (esc s) = s.
Proof. exact simple_arg_reads_escaped. Qed.
Check C11_simple_arg_reads_the_escaped_text :
  forall (s rest : str), stops rest ->
  run r_simple_arg false (esc s ++ rest) = Some (esc s, [Node (Some R_simple_arg) (esc s) []], rest)
  /\ process_arg (esc s) = s.
Print Assumptions C11_simple_arg_reads_the_escaped_text.

(* whole blocks, for EVERY text s: the parser returns the operation carrying exactly s *)
Theorem C11_append :
  forall (s : str), parse_template ([123; 97; 112; 112; 101; 110; 100; 58] ++ esc s ++ [125])%N = Ok ([Append s], false).
Proof. exact append_block. Qed.
Check C11_append :
  forall (s : str), parse_template ([123; 97; 112; 112; 101; 110; 100; 58] ++ esc s ++ [125])%N = Ok ([Append s], false).
Print Assumptions C11_append.

Theorem C11_prepend :
  forall (s : str), parse_template ([123; 112; 114; 101; 112; 101; 110; 100; 58] ++ esc s ++ [125])%N = Ok ([Prepend s], false).
Proof. exact prepend_block. Qed.
Check C11_prepend :
  forall (s : str), parse_template ([123; 112; 114; 101; 112; 101; 110; 100; 58] ++ esc s ++ [125])%N = Ok ([Prepend s], false).
Print Assumptions C11_prepend.

Theorem C11_surround :
  forall (s : str), parse_template ([123; 115; 117; 114; 114; 111; 117; 110; 100; 58] ++ esc s ++ [125])%N = Ok ([Surround s], false).
Proof. exact surround_block. Qed.
Check C11_surround :
  forall (s : str), parse_template ([123; 115; 117; 114; 114; 111; 117; 110; 100; 58] ++ esc s ++ [125])%N = Ok ([Surround s], false).
Print Assumptions C11_surround.

Theorem C11_quote :
  forall (s : str), parse_template ([123; 113; 117; 111; 116; 101; 58] ++ esc s ++ [125])%N = Ok ([Surround s], false).
Proof. exact quote_block. Qed.
Check C11_quote :
  forall (s : str), parse_template ([123; 113; 117; 111; 116; 101; 58] ++ esc s ++ [125])%N = Ok ([Surround s], false).
Print Assumptions C11_quote.

Theorem C11_join :
  forall (s : str), parse_template ([123; 106; 111; 105; 110; 58] ++ esc s ++ [125])%N = Ok ([Join s], false).
Proof. exact join_block. Qed.
Check C11_join :
  forall (s : str), parse_template ([123; 106; 111; 105; 110; 58] ++ esc s ++ [125])%N = Ok ([Join s], false).
Print Assumptions C11_join.

(* {split:ESC(s):..} *)
Theorem C11_split :
  forall (s : str), parse_template ([123; 115; 112; 108; 105; 116; 58] ++ esc s ++ [58; 46; 46; 125])%N = Ok ([Split s (Range None None false)], false).
Proof. exact split_block. Qed.
Check C11_split :
  forall (s : str), parse_template ([123; 115; 112; 108; 105; 116; 58] ++ esc s ++ [58; 46; 46; 125])%N = Ok ([Split s (Range None None false)], false).
Print Assumptions C11_split.

(* {trim:ESC(s):both} -- written with the direction, so that a set spelled `left` is still a set *)
Theorem C11_trim :
  forall (s : str), parse_template ([123; 116; 114; 105; 109; 58] ++ esc s ++ [58; 98; 111; 116; 104; 125])%N = Ok ([Trim s TBoth], false).
Proof. exact trim_block. Qed.
Check C11_trim :
  forall (s : str), parse_template ([123; 116; 114; 105; 109; 58] ++ esc s ++ [58; 98; 111; 116; 104; 125])%N = Ok ([Trim s TBoth], false).
Print Assumptions C11_trim.

(* {pad:3:ESC(c):left} for every pad character c *)
Theorem C11_pad :
  forall (c : N), parse_template ([123; 112; 97; 100; 58; 51; 58] ++ esc [c] ++ [58; 108; 101; 102; 116; 125])%N = Ok ([Pad 3 c PLeft], false).
Proof. exact pad_block. Qed.
Check C11_pad :
  forall (c : N), parse_template ([123; 112; 97; 100; 58; 51; 58] ++ esc [c] ++ [58; 108; 101; 102; 116; 125])%N = Ok ([Pad 3 c PLeft], false).
Print Assumptions C11_pad.

(* the same inside map:{...} (the map_* rule family) *)
Theorem C11_append_in_map :
  forall (s : str), parse_template ([123; 109; 97; 112; 58; 123; 97; 112; 112; 101; 110; 100; 58] ++ esc s ++ [125; 125])%N = Ok ([Map [Append s]], false).
Proof. exact append_in_map. Qed.
Check C11_append_in_map :
  forall (s : str), parse_template ([123; 109; 97; 112; 58; 123; 97; 112; 112; 101; 110; 100; 58] ++ esc s ++ [125; 125])%N = Ok ([Map [Append s]], false).
Print Assumptions C11_append_in_map.

Theorem C11_prepend_in_map :
  forall (s : str), parse_template ([123; 109; 97; 112; 58; 123; 112; 114; 101; 112; 101; 110; 100; 58] ++ esc s ++ [125; 125])%N = Ok ([Map [Prepend s]], false).
Proof. exact prepend_in_map. Qed.
Check C11_prepend_in_map :
  forall (s : str), parse_template ([123; 109; 97; 112; 58; 123; 112; 114; 101; 112; 101; 110; 100; 58] ++ esc s ++ [125; 125])%N = Ok ([Map [Prepend s]], false).
Print Assumptions C11_prepend_in_map.

Theorem C11_surround_in_map :
  forall (s : str), parse_template ([123; 109; 97; 112; 58; 123; 115; 117; 114; 114; 111; 117; 110; 100; 58] ++ esc s ++ [125; 125])%N = Ok ([Map [Surround s]], false).
Proof. exact surround_in_map. Qed.
Check C11_surround_in_map :
  forall (s : str), parse_template ([123; 109; 97; 112; 58; 123; 115; 117; 114; 114; 111; 117; 110; 100; 58] ++ esc s ++ [125; 125])%N = Ok ([Map [Surround s]], false).
Print Assumptions C11_surround_in_map.

Theorem C11_quote_in_map :
  forall (s : str), parse_template ([123; 109; 97; 112; 58; 123; 113; 117; 111; 116; 101; 58] ++ esc s ++ [125; 125])%N = Ok ([Map [Surround s]], false).
Proof. exact quote_in_map. Qed.
Check C11_quote_in_map :
  forall (s : str), parse_template ([123; 109; 97; 112; 58; 123; 113; 117; 111; 116; 101; 58] ++ esc s ++ [125; 125])%N = Ok ([Map [Surround s]], false).
Print Assumptions C11_quote_in_map.

Theorem C11_join_in_map :
  forall (s : str), parse_template ([123; 109; 97; 112; 58; 123; 106; 111; 105; 110; 58] ++ esc s ++ [125; 125])%N = Ok ([Map [Join s]], false).
Proof. exact join_in_map. Qed.
Check C11_join_in_map :
  forall (s : str), parse_template ([123; 109; 97; 112; 58; 123; 106; 111; 105; 110; 58] ++ esc s ++ [125; 125])%N = Ok ([Map [Join s]], false).
Print Assumptions C11_join_in_map.

(* the observe_at identity as a theorem: format(`{append:ESC(s)}`, x) = x + s, through
   the single-block check, the parser, the template object and the interpreter *)
Theorem C11_user_level_append :
  forall (E : Env), L1 replace_meta E -> forall (s x : str),
  bind (template_parse ([123; 97; 112; 112; 101; 110; 100; 58] ++ esc s ++ [125])%N) (fun t => run_pure (impl_format E t x)) = Ok (x ++ s).
Proof. exact append_escaped_roundtrip. Qed.
Check C11_user_level_append :
  forall (E : Env), L1 replace_meta E -> forall (s x : str),
  bind (template_parse ([123; 97; 112; 112; 101; 110; 100; 58] ++ esc s ++ [125])%N) (fun t => run_pure (impl_format E t x)) = Ok (x ++ s).
Print Assumptions C11_user_level_append.

Theorem C11_user_level_prepend :
  forall (E : Env), L1 replace_meta E -> forall (s x : str),
  bind (template_parse ([123; 112; 114; 101; 112; 101; 110; 100; 58] ++ esc s ++ [125])%N) (fun t => run_pure (impl_format E t x)) = Ok (s ++ x).
Proof. exact prepend_escaped_roundtrip. Qed.
Check C11_user_level_prepend :
  forall (E : Env), L1 replace_meta E -> forall (s x : str),
  bind (template_parse ([123; 112; 114; 101; 112; 101; 110; 100; 58] ++ esc s ++ [125])%N) (fun t => run_pure (impl_format E t x)) = Ok (s ++ x).
Print Assumptions C11_user_level_prepend.

Theorem C11_user_level_surround :
  forall (E : Env), L1 replace_meta E -> forall (s x : str),
  bind (template_parse ([123; 115; 117; 114; 114; 111; 117; 110; 100; 58] ++ esc s ++ [125])%N) (fun t => run_pure (impl_format E t x)) = Ok (s ++ x ++ s).
Proof. exact surround_escaped_roundtrip. Qed.
Check C11_user_level_surround :
  forall (E : Env), L1 replace_meta E -> forall (s x : str),
  bind (template_parse ([123; 115; 117; 114; 114; 111; 117; 110; 100; 58] ++ esc s ++ [125])%N) (fun t => run_pure (impl_format E t x)) = Ok (s ++ x ++ s).
Print Assumptions C11_user_level_surround.

Theorem C11_user_level_quote :
  forall (E : Env), L1 replace_meta E -> forall (s x : str),
  bind (template_parse ([123; 113; 117; 111; 116; 101; 58] ++ esc s ++ [125])%N) (fun t => run_pure (impl_format E t x)) = Ok (s ++ x ++ s).
Proof. exact quote_escaped_roundtrip. Qed.
Check C11_user_level_quote :
  forall (E : Env), L1 replace_meta E -> forall (s x : str),
  bind (template_parse ([123; 113; 117; 111; 116; 101; 58] ++ esc s ++ [125])%N) (fun t => run_pure (impl_format E t x)) = Ok (s ++ x ++ s).
Print Assumptions C11_user_level_quote.

(* the decoder regenerated from parser.rs works on characters (not bytes) with
   exactly the three control-character escapes *)
Theorem C11_decoder_is_per_character :
  process_arg_escapes = [(110, 10); (116, 9); (114, 13)]%N /\ process_arg_by_chars = true.
Proof. exact consts_escapes. Qed.
Check C11_decoder_is_per_character :
  process_arg_escapes = [(110, 10); (116, 9); (114, 13)]%N /\ process_arg_by_chars = true.
Print Assumptions C11_decoder_is_per_character.

Theorem C11_plain_text_is_itself :
  forall (s : str), existsb (N.eqb 92) s = false -> process_arg_go s = s.
Proof. exact process_arg_go_no_bslash. Qed.
Check C11_plain_text_is_itself :
  forall (s : str), existsb (N.eqb 92) s = false -> process_arg_go s = s.
Print Assumptions C11_plain_text_is_itself.

Example C11_ex :
  esc [92; 125; 58; 233; 10; 128512; 124; 123; 9]%N = [92; 92; 92; 125; 92; 58; 233; 92; 110; 128512; 92; 124; 92; 123; 92; 116]%N
  /\ process_arg [92; 92; 92; 125; 92; 58; 233; 92; 110; 128512; 92; 124; 92; 123; 92; 116]%N = [92; 125; 58; 233; 10; 128512; 124; 123; 9]%N
  /\ x_parse_ok_append [123; 97; 112; 112; 101; 110; 100; 58; 92; 58; 233; 125]%N = Some [58; 233]%N.
Proof. vm_compute. repeat split. Qed.

(* not only the canonical escaping: ANY raw text made of escaped pairs (\X for any X) and
   characters other than : | { } is read by rule simple_arg in full and nothing more *)
Theorem C11_any_escaped_spelling_is_read :
  forall (a rest : str), regex_units a = true -> stops rest ->
  run r_simple_arg false (a ++ rest) = Some (a, [Node (Some R_simple_arg) a []], rest).
Proof. exact simple_arg_reads_units. Qed.
Check C11_any_escaped_spelling_is_read :
  forall (a rest : str), regex_units a = true -> stops rest ->
  run r_simple_arg false (a ++ rest) = Some (a, [Node (Some R_simple_arg) a []], rest).
Print Assumptions C11_any_escaped_spelling_is_read.

(* ... and append / prepend / surround / quote / join written with such a text carry exactly
   its decoding process_arg a (so \a\:\b is a:b), at top level ... *)
Theorem C11_redundant_escapes_top_level :
  forall (o : op) (txt rest : str), spells_raw o txt -> op_stops rest ->
  exists k, run r_operation false (txt ++ rest) = Some (txt, [Node (Some R_operation) txt [k]], rest)
            /\ parse_operation k = Ok o.
Proof. exact operation_reads_raw. Qed.
Check C11_redundant_escapes_top_level :
  forall (o : op) (txt rest : str), spells_raw o txt -> op_stops rest ->
  exists k, run r_operation false (txt ++ rest) = Some (txt, [Node (Some R_operation) txt [k]], rest)
            /\ parse_operation k = Ok o.
Print Assumptions C11_redundant_escapes_top_level.

(* ... and inside map:{...} *)
Theorem C11_redundant_escapes_in_map :
  forall (o : op) (txt rest : str), spells_raw o txt -> op_stops rest ->
  exists k, run r_map_inner_operation false (txt ++ rest) = Some (txt, [Node (Some R_map_inner_operation) txt [k]], rest)
            /\ parse_map_inner_operation k = Ok o.
Proof. exact inner_reads_raw. Qed.
Check C11_redundant_escapes_in_map :
  forall (o : op) (txt rest : str), spells_raw o txt -> op_stops rest ->
  exists k, run r_map_inner_operation false (txt ++ rest) = Some (txt, [Node (Some R_map_inner_operation) txt [k]], rest)
            /\ parse_map_inner_operation k = Ok o.
Print Assumptions C11_redundant_escapes_in_map.

Check raw_example.
