(* C11 -- any text can be passed as a literal argument through the documented escapes.
   GENERATED from Properties/src/C11.props by tools/mkprops.py; property theorems only. *)
From SP Require Import Model.Syntax Model.Scanner.
From SP Require Import Proofs.SyntaxP.

(* for EVERY string -- any mixture of backslashes, unbalanced braces, colons,
   pipes, newlines, tabs and multi-byte characters -- the decoder applied to the
   documented escaping gives back exactly that string, character for character.
   (No well-formedness premise: esc is total.) *)
Theorem C11_escape_roundtrip :
  forall (s : str), process_arg (esc s) = s.
Proof. exact process_arg_esc. Qed.
Check C11_escape_roundtrip :
  forall (s : str), process_arg (esc s) = s.
Print Assumptions C11_escape_roundtrip.

(* the escaped text never shows a raw : | { } and every backslash in it escapes
   the next character, which is why the argument rules of the grammar read all of
   it and nothing more (the per-rule scanning is compared with the real parser on
   every run) *)
Theorem C11_escaped_text_has_no_raw_special :
  forall (s : str), no_raw_special (esc s) = true.
Proof. exact esc_no_raw_special. Qed.
Check C11_escaped_text_has_no_raw_special :
  forall (s : str), no_raw_special (esc s) = true.
Print Assumptions C11_escaped_text_has_no_raw_special.

(* the decoder regenerated from parser.rs works on characters (not bytes) with
   exactly the three control-character escapes *)
Theorem C11_decoder_is_per_character :
  process_arg_escapes = [(110, 10); (116, 9); (114, 13)]%N /\ process_arg_by_chars = true.
Proof. exact consts_escapes. Qed.
Check C11_decoder_is_per_character :
  process_arg_escapes = [(110, 10); (116, 9); (114, 13)]%N /\ process_arg_by_chars = true.
Print Assumptions C11_decoder_is_per_character.

Theorem C11_plain_text_is_itself :
  forall (s : str), existsb (N.eqb 92) s = false -> process_arg_go s = s.
Proof. exact process_arg_go_no_bslash. Qed.
Check C11_plain_text_is_itself :
  forall (s : str), existsb (N.eqb 92) s = false -> process_arg_go s = s.
Print Assumptions C11_plain_text_is_itself.

Example C11_ex :
  esc [92; 125; 58; 233; 10; 128512; 124; 123; 9]%N = [92; 92; 92; 125; 92; 58; 233; 92; 110; 128512; 92; 124; 92; 123; 92; 116]%N
  /\ process_arg [92; 92; 92; 125; 92; 58; 233; 92; 110; 128512; 92; 124; 92; 123; 92; 116]%N = [92; 125; 58; 233; 10; 128512; 124; 123; 9]%N
  /\ x_parse_ok_append [123; 97; 112; 112; 101; 110; 100; 58; 92; 58; 233; 125]%N = Some [58; 233]%N.
Proof. vm_compute. repeat split. Qed.
