(* C07 -- applicability is decided by value kinds, not by data.
   GENERATED from Properties/src/C07.props by tools/mkprops.py; property theorems only. *)
From SP Require Import Model.Impl Model.Spec Model.Typing.
From SP Require Import Proofs.ImplSpec Proofs.TypingP Proofs.KindsP.

(* each operation produces the kind the documentation states *)
Theorem C07_kind_sound :
  forall (E : Env) (o : op) (v : value) (sep : str) (v' : value) (sep' : str),
  spec_step E o v sep = Ok (v', sep') -> kind_step (kind_of v) o = Some (kind_of v').
Proof. exact kind_sound. Qed.
Check C07_kind_sound :
  forall (E : Env) (o : op) (v : value) (sep : str) (v' : value) (sep' : str),
  spec_step E o v sep = Ok (v', sep') -> kind_step (kind_of v) o = Some (kind_of v').
Print Assumptions C07_kind_sound.

(* a pipeline in which every operation (map bodies included) receives a kind it
   accepts and whose regular expressions are valid succeeds on EVERY input *)
Theorem C07_progress :
  forall (E : Env) (ops : list op) (v : value) (sep : str),
  well_typed_from (kind_of v) ops = true -> regexes_valid E ops = true ->
  exists s, spec_steps E ops v sep = Ok s.
Proof. exact progress. Qed.
Check C07_progress :
  forall (E : Env) (ops : list op) (v : value) (sep : str),
  well_typed_from (kind_of v) ops = true -> regexes_valid E ops = true ->
  exists s, spec_steps E ops v sep = Ok s.
Print Assumptions C07_progress.

(* a pipeline in which some top-level operation receives the wrong kind fails
   with an error on EVERY input: never a partial or coerced result *)
Theorem C07_ill_typed_fails :
  forall (E : Env) (ops : list op) (v : value) (sep : str),
  infer_from (kind_of v) ops = None -> spec_steps E ops v sep = Err.
Proof. exact ill_typed_fails. Qed.
Check C07_ill_typed_fails :
  forall (E : Env) (ops : list op) (v : value) (sep : str),
  infer_from (kind_of v) ops = None -> spec_steps E ops v sep = Err.
Print Assumptions C07_ill_typed_fails.

Theorem C07_wrong_kind_step_fails :
  forall (E : Env) (o : op) (v : value) (sep : str),
  kind_step (kind_of v) o = None -> spec_step E o v sep = Err.
Proof. exact ill_kinded_step_fails. Qed.
Check C07_wrong_kind_step_fails :
  forall (E : Env) (o : op) (v : value) (sep : str),
  kind_step (kind_of v) o = None -> spec_step E o v sep = Err.
Print Assumptions C07_wrong_kind_step_fails.

(* with valid regular expressions and well-typed map bodies, success is exactly
   "every top-level operation receives a kind it accepts": a function of the kind
   of the value, never of its content *)
Theorem C07_outcome_decided_by_kinds :
  forall (E : Env) (ops : list op),
  regexes_valid E ops = true -> forallb well_typed_op ops = true ->
  forall (v : value) (sep : str), is_ok (spec_steps E ops v sep) = is_some (infer_from (kind_of v) ops).
Proof. exact outcome_decided_by_kinds. Qed.
Check C07_outcome_decided_by_kinds :
  forall (E : Env) (ops : list op),
  regexes_valid E ops = true -> forallb well_typed_op ops = true ->
  forall (v : value) (sep : str), is_ok (spec_steps E ops v sep) = is_some (infer_from (kind_of v) ops).
Print Assumptions C07_outcome_decided_by_kinds.

Theorem C07_same_kind_same_success :
  forall (E : Env) (ops : list op),
  regexes_valid E ops = true -> forallb well_typed_op ops = true ->
  forall (v1 v2 : value) (sep1 sep2 : str), kind_of v1 = kind_of v2 ->
    is_ok (spec_steps E ops v1 sep1) = is_ok (spec_steps E ops v2 sep2).
Proof. exact same_kind_same_success. Qed.
Check C07_same_kind_same_success :
  forall (E : Env) (ops : list op),
  regexes_valid E ops = true -> forallb well_typed_op ops = true ->
  forall (v1 v2 : value) (sep1 sep2 : str), kind_of v1 = kind_of v2 ->
    is_ok (spec_steps E ops v1 sep1) = is_ok (spec_steps E ops v2 sep2).
Print Assumptions C07_same_kind_same_success.

Theorem C07_success_is_input_independent :
  forall (E : Env) (ops : list op),
  regexes_valid E ops = true -> forallb well_typed_op ops = true ->
  forall (x y : str), is_ok (spec_run E ops x) = is_ok (spec_run E ops y).
Proof. exact success_is_input_independent. Qed.
Check C07_success_is_input_independent :
  forall (E : Env) (ops : list op),
  regexes_valid E ops = true -> forallb well_typed_op ops = true ->
  forall (x y : str), is_ok (spec_run E ops x) = is_ok (spec_run E ops y).
Print Assumptions C07_success_is_input_independent.

(* the code (Impl layer) has exactly these outcomes *)
Theorem C07_code_follows_the_discipline :
  forall (E : Env), L1 replace_meta E ->
  forall (dbg : bool) (ops : list op) (x : str),
    run_pure (impl_run E dbg ops x) = spec_run E ops x.
Proof. exact impl_run_refines. Qed.
Check C07_code_follows_the_discipline :
  forall (E : Env), L1 replace_meta E ->
  forall (dbg : bool) (ops : list op) (x : str),
    run_pure (impl_run E dbg ops x) = spec_run E ops x.
Print Assumptions C07_code_follows_the_discipline.

Example C07_ex_kinds :
  infer [Split [44%N] (Index 1); Upper] = Some KStr
  /\ infer [Split [44%N] (Range None None false); Upper] = None
  /\ infer [Split [44%N] (Range None None false); Map [Sort Asc]] = Some KList
  /\ well_typed [Split [44%N] (Range None None false); Map [Sort Asc]] = false
  /\ well_typed [Split [44%N] (Range None None false); Map [Split [32%N] (Range None None false); Sort Asc; Join [45%N]]; Join [44%N]; Upper] = true
  /\ infer [Join [44%N]; Filter [97%N]; Reverse; Slice (Index 0)] = None.
Proof. vm_compute. repeat split. Qed.

(* the hypothesis on map bodies is needed: an ill-typed body fails only when the
   list has an item, so the outcome would depend on the data *)
Example C07_ex_body_hypothesis_needed :
  well_typed_op (Map [Sort Asc]) = false
  /\ infer [Split [44%N] (Range None None false); Filter [122%N]; Map [Sort Asc]] = Some KList.
Proof. vm_compute. repeat split. Qed.
