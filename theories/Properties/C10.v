(* C10 -- debug tracing is transparent: it changes stderr only, never the result.
   GENERATED from Properties/src/C10.props by tools/mkprops.py; property theorems only. *)
From SP Require Import Model.Template Model.Scanner.
From SP Require Import Proofs.ImplSpec Proofs.TemplateP Proofs.TemplateLaws Proofs.Corollaries Proofs.BangP.

(* whatever the debug setting, format() returns the identical value or error (as
   outcomes, so "tracing itself never fails" is part of the equality): the debug
   copy of the section loop and the tracer calls in the interpreter are invisible *)
Theorem C10_transparent :
  forall (E : Env), L1 replace_meta E ->
  forall (t : template) (x : str) (d1 d2 : bool),
    run_pure (impl_format E (with_debug t d1) x) = run_pure (impl_format E (with_debug t d2) x).
Proof. exact format_debug_transparent. Qed.
Check C10_transparent :
  forall (E : Env), L1 replace_meta E ->
  forall (t : template) (x : str) (d1 d2 : bool),
    run_pure (impl_format E (with_debug t d1) x) = run_pure (impl_format E (with_debug t d2) x).
Print Assumptions C10_transparent.

Theorem C10_interpreter_transparent :
  forall (E : Env), L1 replace_meta E ->
  forall (dbg : bool) (ops : list op) (x : str),
    run_pure (impl_run E dbg ops x) = spec_run E ops x.
Proof. exact impl_run_refines. Qed.
Check C10_interpreter_transparent :
  forall (E : Env), L1 replace_meta E ->
  forall (dbg : bool) (ops : list op) (x : str),
    run_pure (impl_run E dbg ops x) = spec_run E ops x.
Print Assumptions C10_interpreter_transparent.

Theorem C10_tracer_never_fails :
  forall (v : value), trace_value v = Ok tt.
Proof. exact trace_value_ok. Qed.
Check C10_tracer_never_fails :
  forall (v : value), trace_value v = Ok tt.
Print Assumptions C10_tracer_never_fails.

Theorem C10_literal_preview_never_fails :
  forall (l : str), literal_preview l = Ok tt.
Proof. exact literal_preview_ok. Qed.
Check C10_literal_preview_never_fails :
  forall (l : str), literal_preview l = Ok tt.
Print Assumptions C10_literal_preview_never_fails.

(* regenerated from debug.rs / template.rs on every run *)
Theorem C10_previews_cut_at_character_boundaries :
  debug_value_by_chars = true /\ debug_literal_by_chars = true.
Proof. exact consts_trace_total. Qed.
Check C10_previews_cut_at_character_boundaries :
  debug_value_by_chars = true /\ debug_literal_by_chars = true.
Print Assumptions C10_previews_cut_at_character_boundaries.

(* the inline marker {!...}: for EVERY block text w, the operations are those of
   {w} and only the debug flag differs (proved on the regenerated grammar) *)
Theorem C10_bang_route :
  forall (w : str), match w with 33%N :: _ => False | _ => True end ->
  parse_template (123 :: 33 :: w)%N = omap (fun od => (fst od, true)) (parse_template (123%N :: w)).
Proof. exact bang_only_sets_debug. Qed.
Check C10_bang_route :
  forall (w : str), match w with 33%N :: _ => False | _ => True end ->
  parse_template (123 :: 33 :: w)%N = omap (fun od => (fst od, true)) (parse_template (123%N :: w)).
Print Assumptions C10_bang_route.

(* the debug argument at parse time only ever changes the debug field *)
Theorem C10_parse_time_route :
  forall (s : str) (d1 d2 : option bool) (t1 : template),
  template_parse_with_debug s d1 = Ok t1 ->
  exists t2, template_parse_with_debug s d2 = Ok t2 /\ t_sections t2 = t_sections t1 /\ t_raw t2 = t_raw t1.
Proof. exact parse_debug_only_sets_flag. Qed.
Check C10_parse_time_route :
  forall (s : str) (d1 d2 : option bool) (t1 : template),
  template_parse_with_debug s d1 = Ok t1 ->
  exists t2, template_parse_with_debug s d2 = Ok t2 /\ t_sections t2 = t_sections t1 /\ t_raw t2 = t_raw t1.
Print Assumptions C10_parse_time_route.

Theorem C10_setter_route :
  forall (t : template) (d : bool),
  t_sections (with_debug t d) = t_sections t /\ t_raw (with_debug t d) = t_raw t /\ is_debug (with_debug t d) = d.
Proof. exact setters_only_set_flag. Qed.
Check C10_setter_route :
  forall (t : template) (d : bool),
  t_sections (with_debug t d) = t_sections t /\ t_raw (with_debug t d) = t_raw t /\ is_debug (with_debug t d) = d.
Print Assumptions C10_setter_route.

Example C10_ex_bang :
  omap t_sections (template_parse [123; 33; 117; 112; 112; 101; 114; 125]%N) = omap t_sections (template_parse [123; 117; 112; 112; 101; 114; 125]%N)
  /\ omap t_debug (template_parse [123; 33; 117; 112; 112; 101; 114; 125]%N) = Ok true.
Proof. vm_compute. split; reflexivity. Qed.
