(* C17 -- templates can be formatted from many threads at once with sequential results.
   GENERATED from Properties/src/C17.props by tools/mkprops.py; property theorems only. *)
From SP Require Import Model.Template.
From SP Require Import Proofs.ImplSpec Proofs.TemplateP Proofs.EffP Proofs.Corollaries.

(* ANY number of concurrent calls, ANY interleaving of their atomic cache
   operations (no fairness assumed), starting from any cache state satisfying the
   invariant: the invariant holds after every prefix and every call that finishes
   returns exactly its cache-free result *)
Theorem C17_schedule_independent :
  forall (E : Env) (A : Type) (init : list (prog A)) (c0 : caches) (sched : list nat),
  CacheInv E c0 -> Forall (wf E) init ->
  let st := run_sched sched (init, c0) in
  CacheInv E (snd st) /\
  forall i a, nth_error (fst st) i = Some (Ret a) -> exists p0, nth_error init i = Some p0 /\ a = run_pure p0.
Proof. exact schedule_independent. Qed.
Check C17_schedule_independent :
  forall (E : Env) (A : Type) (init : list (prog A)) (c0 : caches) (sched : list nat),
  CacheInv E c0 -> Forall (wf E) init ->
  let st := run_sched sched (init, c0) in
  CacheInv E (snd st) /\
  forall i a, nth_error (fst st) i = Some (Ret a) -> exists p0, nth_error init i = Some p0 /\ a = run_pure p0.
Print Assumptions C17_schedule_independent.

(* the user-level statement for format(): shared or per-thread template objects,
   cold caches *)
Theorem C17_concurrent_formats :
  forall (E : Env), L1 replace_meta E ->
  forall (calls : list (template * str)) (sched : list nat),
    let st := run_sched sched (map (fun tx => impl_format E (fst tx) (snd tx)) calls, empty_caches) in
    forall i r, nth_error (fst st) i = Some (Ret r) ->
      exists tx, nth_error calls i = Some tx /\ r = spec_format E (t_sections (fst tx)) (snd tx).
Proof. exact concurrent_formats. Qed.
Check C17_concurrent_formats :
  forall (E : Env), L1 replace_meta E ->
  forall (calls : list (template * str)) (sched : list nat),
    let st := run_sched sched (map (fun tx => impl_format E (fst tx) (snd tx)) calls, empty_caches) in
    forall i r, nth_error (fst st) i = Some (Ret r) ->
      exists tx, nth_error calls i = Some tx /\ r = spec_format E (t_sections (fst tx)) (snd tx).
Print Assumptions C17_concurrent_formats.

(* the model has no lock to wait on: every unfinished call has a step in every state *)
Theorem C17_no_blocking :
  forall (A : Type) (m : prog A) (c : caches), (forall a, m <> Ret a) -> exists m' c', step m c = (m', c').
Proof. exact @no_blocking. Qed.
Check C17_no_blocking :
  forall (A : Type) (m : prog A) (c : caches), (forall a, m <> Ret a) -> exists m' c', step m c = (m', c').
Print Assumptions C17_no_blocking.

Theorem C17_no_foreign_data :
  forall (E : Env) (c : caches) (k : split_key) (v : list str),
  CacheInv E c -> split_lookup (c_split c) k = Some v -> v = split (fst k) (snd k).
Proof. exact no_foreign_data. Qed.
Check C17_no_foreign_data :
  forall (E : Env) (c : caches) (k : split_key) (v : list str),
  CacheInv E c -> split_lookup (c_split c) k = Some v -> v = split (fst k) (snd k).
Print Assumptions C17_no_foreign_data.

Theorem C17_format_is_well_formed :
  forall (E : Env) (t : template) (x : str), wf E (impl_format E t x).
Proof. exact wf_impl_format. Qed.
Check C17_format_is_well_formed :
  forall (E : Env) (t : template) (x : str), wf E (impl_format E t x).
Print Assumptions C17_format_is_well_formed.

