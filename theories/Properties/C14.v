(* C14 -- regex operations follow the regex engine under every flag combination.
   GENERATED from Properties/src/C14.props by tools/mkprops.py; property theorems only.
   All statements are for EVERY engine E; the correspondence run plugs in regex 1.11.1. *)
From SP Require Import Model.Impl Model.Spec Model.Typing.
From SP Require Import Proofs.ImplSpec Proofs.ErrP Proofs.RegexP.

(* replace:s/P/R/F is the engine's replace (first match) or replace_all (g) on
   the pattern prefixed with (?F') where F' = those of i, m, s (x) present, in that
   order, whatever the order or repetition of the letters written; an invalid
   pattern is an error.  The literal shortcut is invisible (under the literal law). *)
Theorem C14_replace_is_engine :
  forall (E : Env), L1 replace_meta E ->
  forall (pat repl flags s sep : str),
    run_pure (impl_single E (Replace pat repl flags) (VStr s) sep)
    = if re_valid E (flag_prefix flags ++ pat)
      then Ok (VStr (re_replace E (has_g flags) (flag_prefix flags ++ pat) s repl), sep)
      else Err.
Proof. exact replace_is_engine. Qed.
Check C14_replace_is_engine :
  forall (E : Env), L1 replace_meta E ->
  forall (pat repl flags s sep : str),
    run_pure (impl_single E (Replace pat repl flags) (VStr s) sep)
    = if re_valid E (flag_prefix flags ++ pat)
      then Ok (VStr (re_replace E (has_g flags) (flag_prefix flags ++ pat) s repl), sep)
      else Err.
Print Assumptions C14_replace_is_engine.

Theorem C14_flag_prefix_order_insensitive :
  forall (f1 f2 : str), (forall c, In c f1 <-> In c f2) -> flag_prefix f1 = flag_prefix f2 /\ has_g f1 = has_g f2.
Proof. exact flag_prefix_perm. Qed.
Check C14_flag_prefix_order_insensitive :
  forall (f1 f2 : str), (forall c, In c f1 <-> In c f2) -> flag_prefix f1 = flag_prefix f2 /\ has_g f1 = has_g f2.
Print Assumptions C14_flag_prefix_order_insensitive.

(* all 16 subsets of g,i,m,s *)
Theorem C14_flag_prefix_table :
  forall (g i m s : bool),
  let fl : str := ((if g then [103] else []) ++ (if i then [105] else []) ++ (if m then [109] else []) ++ (if s then [115] else []))%N in
  flag_prefix fl = (if (i || m || s)%bool then [40; 63] ++ (if i then [105] else []) ++ (if m then [109] else []) ++ (if s then [115] else []) ++ [41] else [])%N
  /\ has_g fl = g.
Proof. exact flag_prefix_table. Qed.
Check C14_flag_prefix_table :
  forall (g i m s : bool),
  let fl : str := ((if g then [103] else []) ++ (if i then [105] else []) ++ (if m then [109] else []) ++ (if s then [115] else []))%N in
  flag_prefix fl = (if (i || m || s)%bool then [40; 63] ++ (if i then [105] else []) ++ (if m then [109] else []) ++ (if s then [115] else []) ++ [41] else [])%N
  /\ has_g fl = g.
Print Assumptions C14_flag_prefix_table.

Theorem C14_extract_is_engine :
  forall (E : Env) (p : str) (g : option N) (s sep : str),
  run_pure (impl_single E (RegexExtract p g) (VStr s) sep)
  = if re_valid E p
    then Ok (VStr (match (match g with Some i => re_group E p s i | None => re_find E p s end) with
                   | Some m => m | None => [] end), sep)
    else Err.
Proof. exact extract_is_engine. Qed.
Check C14_extract_is_engine :
  forall (E : Env) (p : str) (g : option N) (s sep : str),
  run_pure (impl_single E (RegexExtract p g) (VStr s) sep)
  = if re_valid E p
    then Ok (VStr (match (match g with Some i => re_group E p s i | None => re_find E p s end) with
                   | Some m => m | None => [] end), sep)
    else Err.
Print Assumptions C14_extract_is_engine.

Theorem C14_filter_is_engine :
  forall (E : Env) (p : str) (l : list str) (sep : str),
  run_pure (impl_single E (Filter p) (VList l) sep)
  = if re_valid E p then Ok (VList (filter (fun s => re_is_match E p s) l), sep) else Err.
Proof. exact filter_is_engine. Qed.
Check C14_filter_is_engine :
  forall (E : Env) (p : str) (l : list str) (sep : str),
  run_pure (impl_single E (Filter p) (VList l) sep)
  = if re_valid E p then Ok (VList (filter (fun s => re_is_match E p s) l), sep) else Err.
Print Assumptions C14_filter_is_engine.

Theorem C14_filter_not_is_engine :
  forall (E : Env) (p : str) (l : list str) (sep : str),
  run_pure (impl_single E (FilterNot p) (VList l) sep)
  = if re_valid E p then Ok (VList (filter (fun s => negb (re_is_match E p s)) l), sep) else Err.
Proof. exact filter_not_is_engine. Qed.
Check C14_filter_not_is_engine :
  forall (E : Env) (p : str) (l : list str) (sep : str),
  run_pure (impl_single E (FilterNot p) (VList l) sep)
  = if re_valid E p then Ok (VList (filter (fun s => negb (re_is_match E p s)) l), sep) else Err.
Print Assumptions C14_filter_not_is_engine.

Theorem C14_filter_on_string :
  forall (E : Env) (p s sep : str),
  run_pure (impl_single E (Filter p) (VStr s) sep)
  = if re_valid E p then Ok (VStr (if re_is_match E p s then s else []), sep) else Err.
Proof. exact filter_string_is_engine. Qed.
Check C14_filter_on_string :
  forall (E : Env) (p s sep : str),
  run_pure (impl_single E (Filter p) (VStr s) sep)
  = if re_valid E p then Ok (VStr (if re_is_match E p s then s else []), sep) else Err.
Print Assumptions C14_filter_on_string.

(* never a panic, never a silent no-op *)
Theorem C14_invalid_pattern_is_error :
  forall (E : Env), L1 replace_meta E ->
  forall (o : op) (v : value) (sep : str) (p : str),
    (forall b, o <> Map b) -> regex_used o v = Some p -> re_valid E p = false ->
    run_pure (impl_single E o v sep) = Err.
Proof. exact invalid_pattern_is_error. Qed.
Check C14_invalid_pattern_is_error :
  forall (E : Env), L1 replace_meta E ->
  forall (o : op) (v : value) (sep : str) (p : str),
    (forall b, o <> Map b) -> regex_used o v = Some p -> re_valid E p = false ->
    run_pure (impl_single E o v sep) = Err.
Print Assumptions C14_invalid_pattern_is_error.

Theorem C14_regex_cache_unobservable :
  forall (E : Env) (p : str), run_pure (get_cached_regex E p) = if re_valid E p then Ok tt else Err.
Proof. exact run_pure_get_cached_regex. Qed.
Check C14_regex_cache_unobservable :
  forall (E : Env) (p : str), run_pure (get_cached_regex E p) = if re_valid E p then Ok tt else Err.
Print Assumptions C14_regex_cache_unobservable.

