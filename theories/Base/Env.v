(* External code the model is parametric in.  Never an axiom: every theorem is
   stated for all [E : Env]; the correspondence run plugs in the real crates. *)
From SP Require Export Base.Outcome.

Record Env := {
  re_valid    : str -> bool;                       (* Regex::new(p).is_ok() *)
  re_is_match : str -> str -> bool;                (* Regex::new(p).is_match(t) *)
  re_find     : str -> str -> option str;          (* .find(t).as_str() *)
  re_group    : str -> str -> N -> option str;     (* .captures(t).and_then(|c| c.get(i)) *)
  re_replace  : bool -> str -> str -> str -> str;  (* all?, pattern, text, replacement *)
  to_upper    : str -> str;
  to_lower    : str -> str;
  strip_ansi  : str -> str;                        (* fast_strip_ansi::strip_ansi_string *)
}.

(* Laws about the regex engine that individual theorems name as hypotheses. *)

(* the 14 characters the Replace arm treats as "this is a regex, not a literal" *)
Definition L1 (meta : str) (E : Env) : Prop :=
  forall (pfx p t r : str) (all : bool),
    (forall c, In c p -> mem_cp c meta = false) ->
    (pfx = [] \/ exists fl, pfx = [40; 63]%N ++ fl ++ [41]%N /\ forall c, In c fl -> c = 109%N \/ c = 115%N) ->
    contains t p = false ->
    re_valid E (pfx ++ p) = true /\ re_replace E all (pfx ++ p) t r = t.

Definition L2 (E : Env) : Prop :=
  forall s, valid s = true -> valid (to_upper E s) = true /\ valid (to_lower E s) = true.
