(* Strings as lists of Unicode scalar values; byte-level views where the code
   works on bytes.  Definitions only (plus a few tiny structural lemmas that
   other *definitions* need); proofs live under Proofs/. *)
From Coq Require Export List NArith ZArith Bool Arith Lia.
Export ListNotations.

Definition str := list N.
Local Open Scope N_scope.

(* linear-time reversal (List.rev is quadratic); [frev_rev] below says it is rev *)
Definition frev {A} (l : list A) : list A := rev_append l [].
Lemma frev_rev {A} (l : list A) : frev l = rev l.
Proof. unfold frev. symmetry. apply rev_alt. Qed.

Fixpoint str_eqb (a b : str) : bool :=
  match a, b with
  | [], [] => true
  | x :: a', y :: b' => N.eqb x y && str_eqb a' b'
  | _, _ => false
  end.

(* lexicographic order on code points; identical to Rust's String Ord (byte
   order of UTF-8 equals code point order) *)
Fixpoint str_leb (a b : str) : bool :=
  match a, b with
  | [], _ => true
  | _ :: _, [] => false
  | x :: a', y :: b' => if N.ltb x y then true else if N.eqb x y then str_leb a' b' else false
  end.

Definition valid_cp (c : N) : bool :=
  (N.ltb c 1114112 && negb (N.leb 55296 c && N.leb c 57343))%bool.
Definition valid (s : str) : bool := forallb valid_cp s.

Definition is_ascii_cp (c : N) : bool := N.ltb c 128.
Definition is_ascii (s : str) : bool := forallb is_ascii_cp s.

Definition utf8_len_cp (c : N) : N :=
  if N.ltb c 128 then 1 else if N.ltb c 2048 then 2 else if N.ltb c 65536 then 3 else 4.
Fixpoint utf8_len (s : str) : N :=
  match s with [] => 0 | c :: s' => utf8_len_cp c + utf8_len s' end.

(* UTF-8 encoding of one scalar value / a string *)
Definition utf8_cp (c : N) : list N :=
  if N.ltb c 128 then [c]
  else if N.ltb c 2048 then [192 + c / 64; 128 + c mod 64]
  else if N.ltb c 65536 then [224 + c / 4096; 128 + (c / 64) mod 64; 128 + c mod 64]
  else [240 + c / 262144; 128 + (c / 4096) mod 64; 128 + (c / 64) mod 64; 128 + c mod 64].
Definition utf8 (s : str) : list N := flat_map utf8_cp s.

(* Unicode White_Space (what char::is_whitespace answers); the harness checks
   this table against the real function for every scalar value. *)
Definition is_ws (c : N) : bool :=
  ((N.leb 9 c && N.leb c 13) || N.eqb c 32 || N.eqb c 133 || N.eqb c 160 || N.eqb c 5760
   || (N.leb 8192 c && N.leb c 8202) || N.eqb c 8232 || N.eqb c 8233 || N.eqb c 8239
   || N.eqb c 8287 || N.eqb c 12288)%bool.
(* u8::is_ascii_whitespace: space, \t, \n, \x0C, \r -- NOT \x0B *)
Definition is_ascii_ws (c : N) : bool :=
  (N.eqb c 32 || N.eqb c 9 || N.eqb c 10 || N.eqb c 12 || N.eqb c 13)%bool.

Fixpoint is_prefix (p s : str) : bool :=
  match p, s with
  | [], _ => true
  | c :: p', d :: s' => N.eqb c d && is_prefix p' s'
  | _ :: _, [] => false
  end.

Fixpoint contains (s p : str) : bool :=
  is_prefix p s || match s with [] => false | _ :: s' => contains s' p end.

Definition mem_cp (c : N) (set : str) : bool := existsb (N.eqb c) set.

Fixpoint drop_while (f : N -> bool) (s : str) : str :=
  match s with
  | [] => []
  | c :: s' => if f c then drop_while f s' else s
  end.
Definition drop_while_end (f : N -> bool) (s : str) : str := frev (drop_while f (frev s)).

Fixpoint repeat_cp (c : N) (n : nat) : str :=
  match n with O => [] | S k => c :: repeat_cp c k end.

Fixpoint take_while (f : N -> bool) (s : str) : str :=
  match s with
  | [] => []
  | c :: s' => if f c then c :: take_while f s' else []
  end.

Fixpoint list_eqb {A} (eqb : A -> A -> bool) (a b : list A) : bool :=
  match a, b with
  | [], [] => true
  | x :: a', y :: b' => eqb x y && list_eqb eqb a' b'
  | _, _ => false
  end.
