(* The three ways a Rust call can end: a value, an Err(..) (message not
   modelled), or a panic. *)
From SP Require Export Base.Str.

Inductive outcome (A : Type) := Ok (a : A) | Err | Panic.
Arguments Ok {A}. Arguments Err {A}. Arguments Panic {A}.

Definition bind {A B} (m : outcome A) (f : A -> outcome B) : outcome B :=
  match m with Ok a => f a | Err => Err | Panic => Panic end.
Definition omap {A B} (f : A -> B) (m : outcome A) : outcome B :=
  match m with Ok a => Ok (f a) | Err => Err | Panic => Panic end.

(* Iterator::map(..).collect::<Result<Vec<_>,_>>(): left to right, stops at the
   first failure *)
Fixpoint mapM {A B} (f : A -> outcome B) (l : list A) : outcome (list B) :=
  match l with
  | [] => Ok []
  | x :: l' => bind (f x) (fun y => bind (mapM f l') (fun ys => Ok (y :: ys)))
  end.

Definition is_ok {A} (m : outcome A) : bool := match m with Ok _ => true | _ => false end.
