(* main.rs: the command-line front end, from a processed argument set to
   (stdout, class of stderr, exit status).  clap's argv parsing, process start-up
   and the OS pipe are not modelled. *)
From SP Require Export Model.Scanner.

Inductive source :=
| FromArg (s : str)                 (* given on the command line *)
| FromFile (content : option str)   (* -t / -f FILE; None = the file cannot be read *)
| Absent.

Record cli_config := {
  cli_template : source;            (* TEMPLATE argument and/or --template-file *)
  cli_template_both : bool;         (* both TEMPLATE and --template-file were given *)
  cli_input : source;               (* INPUT argument or --input-file; Absent = read stdin *)
  cli_input_both : bool;
  cli_stdin : str;
  cli_debug : bool;
  cli_quiet : bool;
  cli_validate : bool;
}.

Inductive stderr_class := StderrEmpty | StderrError | StderrDebug.
Record cli_result := { cli_stdout : str; cli_stderr : stderr_class; cli_exit : N }.

Definition trim_end_ws (s : str) : str := drop_while_end is_ws s.
Definition trim_ws (s : str) : str := drop_while_end is_ws (drop_while is_ws s).

Definition fail : cli_result := {| cli_stdout := []; cli_stderr := StderrError; cli_exit := 1 |}.
Definition crash : cli_result := {| cli_stdout := []; cli_stderr := StderrError; cli_exit := 101 |}.

(* fn get_template(cli) *)
Definition get_template (cfg : cli_config) : option str :=
  if cli_template_both cfg then None else
  match cli_template cfg with
  | FromArg t => Some t
  | FromFile (Some content) => Some (trim_ws content)
  | FromFile None => None
  | Absent => None
  end.

(* fn get_input(cli) *)
Definition get_input (cfg : cli_config) : option str :=
  if cli_input_both cfg then None else
  match cli_input cfg with
  | FromArg i => Some i
  | FromFile (Some content) => Some (trim_end_ws content)
  | FromFile None => None
  | Absent => Some (trim_end_ws (cli_stdin cfg))
  end.

Definition valid_msg : str := [84; 101; 109; 112; 108; 97; 116; 101; 32; 115; 121; 110; 116; 97; 120; 32; 105; 115; 32; 118; 97; 108; 105; 100; 10]%N.

Section Cli.
Variable E : Env.

(* fn main(), after the help shortcuts *)
Definition cli_main (cfg : cli_config) : cli_result :=
  match get_template cfg with
  | None => fail
  | Some tpl_text =>
    match (if cli_validate cfg then Some [] else get_input cfg) with
    | None => fail
    | Some input =>
      match template_parse_with_debug tpl_text None with
      | Err => fail
      | Panic => crash
      | Ok t0 =>
        let should_debug := ((is_debug t0 || cli_debug cfg) && negb (cli_quiet cfg))%bool in
        let t := with_debug t0 should_debug in
        if cli_validate cfg then
          {| cli_stdout := if cli_quiet cfg then [] else valid_msg; cli_stderr := StderrEmpty; cli_exit := 0 |}
        else
          match run_pure (impl_format E t input) with
          | Ok r => {| cli_stdout := r; cli_stderr := if should_debug then StderrDebug else StderrEmpty; cli_exit := 0 |}
          | Err => {| cli_stdout := []; cli_stderr := if should_debug then StderrDebug else StderrError; cli_exit := 1 |}
          | Panic => crash
          end
      end
    end
  end.

End Cli.
