(* The two process-wide caches as an explicit effect interface.  A call into
   the library is a [prog]: a tree whose nodes are the atomic cache operations
   the code performs (DashMap get / insert / entry().or_insert()). *)
From SP Require Export Model.Ops.

Definition split_key := (str * str)%type.     (* (input, separator) after fix a63bbfd *)

Inductive prog (A : Type) :=
| Ret (a : A)
| SplitGet (k : split_key) (cont : option (list str) -> prog A)
| SplitPut (k : split_key) (v : list str) (cont : prog A)
| RegexGet (p : str) (cont : bool -> prog A)
| RegexPut (p : str) (cont : prog A).
Arguments Ret {A}. Arguments SplitGet {A}. Arguments SplitPut {A}.
Arguments RegexGet {A}. Arguments RegexPut {A}.

Fixpoint pbind {A B} (m : prog A) (f : A -> prog B) : prog B :=
  match m with
  | Ret a => f a
  | SplitGet k c => SplitGet k (fun r => pbind (c r) f)
  | SplitPut k v c => SplitPut k v (pbind c f)
  | RegexGet p c => RegexGet p (fun r => pbind (c r) f)
  | RegexPut p c => RegexPut p (pbind c f)
  end.

Fixpoint pmapM {A B} (f : A -> prog B) (l : list A) : prog (list B) :=
  match l with
  | [] => Ret []
  | x :: l' => pbind (f x) (fun y => pbind (pmapM f l') (fun ys => Ret (y :: ys)))
  end.

(* first-error-wins traversal inside prog *)
Fixpoint pmapM_o {A B} (f : A -> prog (outcome B)) (l : list A) : prog (outcome (list B)) :=
  match l with
  | [] => Ret (Ok [])
  | x :: l' =>
      pbind (f x) (fun r =>
        match r with
        | Ok y => pbind (pmapM_o f l') (fun rs => Ret (omap (cons y) rs))
        | Err => Ret Err
        | Panic => Ret Panic
        end)
  end.

(* ---- semantics -------------------------------------------------------- *)

Record caches := { c_split : list (split_key * list str); c_regex : list str }.
Definition empty_caches : caches := {| c_split := []; c_regex := [] |}.

Definition key_eqb (a b : split_key) : bool := str_eqb (fst a) (fst b) && str_eqb (snd a) (snd b).
Fixpoint split_lookup (c : list (split_key * list str)) (k : split_key) : option (list str) :=
  match c with
  | [] => None
  | (k', v) :: c' => if key_eqb k' k then Some v else split_lookup c' k
  end.
Definition regex_cached (c : list str) (p : str) : bool := existsb (str_eqb p) c.

(* every Get misses and every Put is dropped: the cache-free meaning *)
Fixpoint run_pure {A} (m : prog A) : A :=
  match m with
  | Ret a => a
  | SplitGet _ c => run_pure (c None)
  | SplitPut _ _ c => run_pure c
  | RegexGet _ c => run_pure (c false)
  | RegexPut _ c => run_pure c
  end.

(* one atomic step against the shared caches *)
Definition step {A} (m : prog A) (c : caches) : prog A * caches :=
  match m with
  | Ret a => (Ret a, c)
  | SplitGet k cont => (cont (split_lookup (c_split c) k), c)
  | SplitPut k v cont =>
      (* DashMap::insert overwrites *)
      (cont, {| c_split := (k, v) :: c_split c; c_regex := c_regex c |})
  | RegexGet p cont => (cont (regex_cached (c_regex c) p), c)
  | RegexPut p cont =>
      (* entry().or_insert(): keeps an existing entry *)
      (cont, {| c_split := c_split c;
                c_regex := if regex_cached (c_regex c) p then c_regex c else p :: c_regex c |})
  end.

(* one thread to completion *)
Fixpoint run_st {A} (m : prog A) (c : caches) : A * caches :=
  match m with
  | Ret a => (a, c)
  | SplitGet k cont => run_st (cont (split_lookup (c_split c) k)) c
  | SplitPut k v cont => run_st cont {| c_split := (k, v) :: c_split c; c_regex := c_regex c |}
  | RegexGet p cont => run_st (cont (regex_cached (c_regex c) p)) c
  | RegexPut p cont =>
      run_st cont {| c_split := c_split c;
                     c_regex := if regex_cached (c_regex c) p then c_regex c else p :: c_regex c |}
  end.

(* many threads, any schedule: thread [i] takes one atomic step *)
Fixpoint set_nth {X} (l : list X) (i : nat) (x : X) : list X :=
  match l, i with
  | [], _ => []
  | _ :: t, O => x :: t
  | h :: t, S j => h :: set_nth t j x
  end.
Definition sched_step {A} (st : list (prog A) * caches) (i : nat) : list (prog A) * caches :=
  let (pool, c) := st in
  match nth_error pool i with
  | Some p => let (p', c') := step p c in (set_nth pool i p', c')
  | None => st
  end.
Definition run_sched {A} (sched : list nat) (st : list (prog A) * caches) := fold_left sched_step sched st.
