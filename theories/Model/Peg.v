(* A generic PEG interpreter producing pest-style token trees: ordered choice,
   greedy repetition, atomic (@) and silent (_) rules, no implicit whitespace. *)
From SP Require Export Base.Outcome.
Inductive rkind := Normal | Atomic | Silent.
Section Engine.
Variable rule : Type.
Inductive peg :=
| PStr (s: str) | PAny | PEoiTok | PRange (lo hi: N)
| PSeq (a b: peg) | PAlt (a b: peg) | PStar (a: peg) | PPlus (a: peg) | POpt (a: peg)
| PNot (a: peg) | PAnd (a: peg) | PRule (id: rule) (k: rkind) (body: peg).
Inductive tree := Node (id: option rule) (txt: str) (kids: list tree).
Definition res := option (str * list tree * str)%type.

Fixpoint strip_prefix (p s: str) : option str :=
  match p, s with
  | [], _ => Some s
  | c :: p', d :: s' => if N.eqb c d then strip_prefix p' s' else None
  | _ :: _, [] => None
  end.

Fixpoint star_loop (f: str -> res) (fuel: nat) (inp: str) : res :=
  match fuel with
  | O => Some ([], [], inp)
  | S fuel' =>
      match f inp with
      | Some (t1, k1, r1) =>
          if Nat.ltb (length r1) (length inp) then
            match star_loop f fuel' r1 with
            | Some (t2, k2, r2) => Some (t1 ++ t2, k1 ++ k2, r2)
            | None => None
            end
          else Some ([], [], inp)
      | None => Some ([], [], inp)
      end
  end.

Definition seq_res (r1: res) (f2: str -> res) : res :=
  match r1 with
  | Some (t1, k1, rest1) =>
      match f2 rest1 with
      | Some (t2, k2, rest2) => Some (t1 ++ t2, k1 ++ k2, rest2)
      | None => None
      end
  | None => None
  end.

Fixpoint run (e: peg) (atomic: bool) (inp: str) {struct e} : res :=
  match e with
  | PStr s => match strip_prefix s inp with Some r => Some (s, [], r) | None => None end
  | PAny => match inp with c :: r => Some ([c], [], r) | [] => None end
  | PEoiTok => match inp with [] => Some ([], (if atomic then [] else [Node None [] []]), []) | _ => None end
  | PRange lo hi => match inp with
                    | c :: r => if (N.leb lo c && N.leb c hi)%bool then Some ([c], [], r) else None
                    | [] => None end
  | PSeq a b => seq_res (run a atomic inp) (run b atomic)
  | PAlt a b => match run a atomic inp with Some x => Some x | None => run b atomic inp end
  | PStar a => star_loop (run a atomic) (S (length inp)) inp
  | PPlus a => seq_res (run a atomic inp) (fun r => star_loop (run a atomic) (S (length r)) r)
  | POpt a => match run a atomic inp with Some x => Some x | None => Some ([], [], inp) end
  | PNot a => match run a true inp with Some _ => None | None => Some ([], [], inp) end
  | PAnd a => match run a true inp with Some _ => Some ([], [], inp) | None => None end
  | PRule id k body =>
      match k with
      | Silent => run body atomic inp
      | Normal => match run body atomic inp with
                  | Some (t, kids, r) => Some (t, (if atomic then [] else [Node (Some id) t kids]), r)
                  | None => None end
      | Atomic => match run body true inp with
                  | Some (t, _, r) => Some (t, (if atomic then [] else [Node (Some id) t []]), r)
                  | None => None end
      end
  end.
End Engine.
Arguments PStr {rule}. Arguments PAny {rule}. Arguments PEoiTok {rule}. Arguments PRange {rule}.
Arguments PSeq {rule}. Arguments PAlt {rule}. Arguments PStar {rule}. Arguments PPlus {rule}. Arguments POpt {rule}.
Arguments PNot {rule}. Arguments PAnd {rule}. Arguments PRule {rule}. Arguments Node {rule}.
Arguments run {rule}. Arguments star_loop {rule}. Arguments star_loop : simpl never.
