(* str::split, the memchr 1-byte path of get_cached_split, [T]::join, and plain
   (non-regex) substring replacement. *)
From SP Require Export Base.Outcome.

(* cur is the current piece, reversed; skip counts separator characters still
   to drop after a match *)
Fixpoint split_go (sep s : str) (skip : nat) (cur : str) : list str :=
  match s with
  | [] => [frev cur]
  | c :: s' =>
      match skip with
      | S k => split_go sep s' k cur
      | O => if is_prefix sep s
             then frev cur :: split_go sep s' (length sep - 1) []
             else split_go sep s' 0 (c :: cur)
      end
  end.

(* str::split(sep): non-overlapping matches left to right; the empty separator
   matches at every character boundary including both ends *)
Definition split (s sep : str) : list str :=
  match sep with
  | [] => [] :: map (fun c => [c]) s ++ [[]]
  | _ => split_go sep s 0 []
  end.

(* the memchr path: cut at every occurrence of one (ASCII) character *)
Fixpoint split_char_go (c : N) (s : str) (cur : str) : list str :=
  match s with
  | [] => [frev cur]
  | d :: s' => if N.eqb c d then frev cur :: split_char_go c s' [] else split_char_go c s' (d :: cur)
  end.
Definition split_char (s : str) (c : N) : list str := split_char_go c s [].

Fixpoint join (sep : str) (l : list str) : str :=
  match l with
  | [] => []
  | [x] => x
  | x :: rest => x ++ sep ++ join sep rest
  end.

(* str::replace(from, to) for non-empty [from]: scan left to right, replace
   non-overlapping occurrences *)
Fixpoint replace_go (from to s : str) (skip : nat) : str :=
  match s with
  | [] => []
  | c :: s' =>
      match skip with
      | S k => replace_go from to s' k
      | O => if is_prefix from s then to ++ replace_go from to s' (length from - 1)
             else c :: replace_go from to s' 0
      end
  end.
Definition replace_plain (s from to : str) : str :=
  match from with
  | [] => to ++ flat_map (fun c => c :: to) s
  | _ => replace_go from to s 0
  end.
