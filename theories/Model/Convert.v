(* parser.rs: parse tree -> operations.  Every unwrap() is an explicit Panic
   branch, every `?` an Err; numeric conversion as str::parse does it. *)
From SP Require Export Model.Peg Gen.Grammar Gen.Consts Model.Ops.

Definition ptree := tree rule.
Definition t_rule (t : ptree) : option rule := match t with Node id _ _ => id end.
Definition t_text (t : ptree) : str := match t with Node _ txt _ => txt end.
Definition t_kids (t : ptree) : list ptree := match t with Node _ _ k => k end.

(* Pairs::next().unwrap() *)
Definition unwrap_first (l : list ptree) : outcome ptree :=
  match l with k :: _ => Ok k | [] => Panic end.

(* ---- numbers: str::parse::<isize>() / ::<usize>() -------------------------- *)
Local Open Scope N_scope.
Definition digit_val (c : N) : option N :=
  if (N.leb 48 c && N.leb c 57)%bool then Some (c - 48) else None.
Fixpoint parse_digits (s : str) (acc : N) : option N :=
  match s with
  | [] => Some acc
  | c :: s' => match digit_val c with Some d => parse_digits s' (acc * 10 + d) | None => None end
  end.
Definition parse_unsigned (s : str) : option N :=
  match s with [] => None | _ => parse_digits s 0 end.
Definition usize_max : N := 18446744073709551615.
Definition parse_usize (s : str) : option N :=
  match parse_unsigned s with
  | Some n => if N.leb n usize_max then Some n else None
  | None => None
  end.
Definition signed_in_range (neg : bool) (digits : str) : option Z :=
  match parse_unsigned digits with
  | Some n => let z := if neg then Z.opp (Z.of_N n) else Z.of_N n in if in_isize z then Some z else None
  | None => None
  end.
Definition parse_isize (s : str) : option Z :=
  match s with
  | c :: r => if N.eqb c 45 then signed_in_range true r else signed_in_range false s
  | [] => None
  end.

(* ---- fn process_arg(s) ------------------------------------------------------ *)
Definition unescape (d : N) : N :=
  match find (fun p => N.eqb (fst p) d) process_arg_escapes with
  | Some p => snd p
  | None => d
  end.
Fixpoint process_arg_go (s : str) : str :=
  match s with
  | [] => []
  | c :: s' =>
      if N.eqb c 92 then
        match s' with
        | [] => [92]                                   (* backslash at end of string *)
        | d :: s'' => unescape d :: process_arg_go s''
        end
      else c :: process_arg_go s'
  end.
Definition process_arg (s : str) : str :=
  if negb (existsb (N.eqb 92) s) then s                 (* fast path: no escape sequences *)
  else if process_arg_by_chars then process_arg_go s
  else process_arg_go (utf8 s).                          (* a byte loop pushes every byte as a char *)

(* ---- ranges ------------------------------------------------------------------ *)
(* fn parse_bound(p) -> Result<isize, String>  (after fix 94033b9) *)
Definition parse_bound (t : ptree) : outcome Z :=
  match parse_isize (t_text t) with Some z => Ok z | None => Err end.
Definition opt_bound (o : option ptree) : outcome (option Z) :=
  match o with None => Ok None | Some t => omap Some (parse_bound t) end.

Definition parse_range_spec (pair : ptree) : outcome range :=
  bind (unwrap_first (t_kids pair)) (fun inner =>
    let parts := t_kids inner in
    match t_rule inner with
    | Some R_range_inclusive =>
        bind (opt_bound (nth_error parts 0)) (fun a =>
        bind (opt_bound (nth_error parts 1)) (fun b => Ok (Range a b true)))
    | Some R_range_exclusive =>
        bind (opt_bound (nth_error parts 0)) (fun a =>
        bind (opt_bound (nth_error parts 1)) (fun b => Ok (Range a b false)))
    | Some R_range_from =>
        bind (unwrap_first parts) (fun p => bind (parse_bound p) (fun a => Ok (Range (Some a) None false)))
    | Some R_range_to =>
        bind (unwrap_first parts) (fun p => bind (parse_bound p) (fun b => Ok (Range None (Some b) false)))
    | Some R_range_to_inclusive =>
        bind (unwrap_first parts) (fun p => bind (parse_bound p) (fun b => Ok (Range None (Some b) true)))
    | Some R_range_full => Ok (Range None None false)
    | Some R_index =>
        bind (unwrap_first parts) (fun p => bind (parse_bound p) (fun i => Ok (Index i)))
    | _ => Err
    end).

(* ---- small argument helpers --------------------------------------------------- *)
Definition extract_single_arg (pair : ptree) : outcome str :=
  bind (unwrap_first (t_kids pair)) (fun inner => Ok (process_arg (t_text inner))).
Definition extract_single_arg_raw (pair : ptree) : outcome str :=
  bind (unwrap_first (t_kids pair)) (fun inner => Ok (t_text inner)).
Definition extract_range_arg (pair : ptree) : outcome range :=
  bind (unwrap_first (t_kids pair)) parse_range_spec.

Definition s_left : str := [108; 101; 102; 116].
Definition s_right : str := [114; 105; 103; 104; 116].
Definition s_both : str := [98; 111; 116; 104].
Definition s_desc : str := [100; 101; 115; 99].
Definition is_direction_word (s : str) : bool := (str_eqb s s_left || str_eqb s s_right || str_eqb s s_both)%bool.

Definition parse_trim_chars (pair : ptree) : str :=
  match t_kids pair with
  | [] => []
  | first :: rest =>
      match rest with
      | _ :: _ => process_arg (t_text first)
      | [] => if is_direction_word (t_text first) then [] else process_arg (t_text first)
      end
  end.
Definition tdir_of (s : str) : tdir :=
  if str_eqb s s_left then TLeft else if str_eqb s s_right then TRight else TBoth.
Definition parse_trim_direction (pair : ptree) : tdir :=
  match t_kids pair with
  | [] => TBoth
  | first :: rest =>
      match rest with
      | second :: _ => tdir_of (t_text second)
      | [] => tdir_of (t_text first)
      end
  end.
Definition parse_sort_direction (pair : ptree) : sdir :=
  match t_kids pair with
  | p :: _ => if str_eqb (t_text p) s_desc then Desc else Asc
  | [] => Asc
  end.

Definition parse_pad_operation (pair : ptree) : outcome op :=
  let parts := t_kids pair in
  bind (unwrap_first parts) (fun w =>
    match parse_usize (t_text w) with
    | None => Err                                        (* "Invalid padding width" *)
    | Some width =>
        let c := match nth_error parts 1 with
                 | Some cp => match process_arg (t_text cp) with ch :: _ => ch | [] => 32 end
                 | None => 32
                 end in
        let d := match nth_error parts 2 with
                 | Some dp => if str_eqb (t_text dp) s_left then PLeft
                              else if str_eqb (t_text dp) s_both then PBoth else PRight
                 | None => PRight
                 end in
        Ok (Pad width c d)
    end).

Definition parse_regex_extract_operation (pair : ptree) : outcome op :=
  let parts := t_kids pair in
  bind (unwrap_first parts) (fun p =>
    match nth_error parts 1 with
    | None => Ok (RegexExtract (t_text p) None)
    | Some g => match parse_usize (t_text g) with
                | Some n => Ok (RegexExtract (t_text p) (Some n))
                | None => Err                            (* after fix 94033b9 *)
                end
    end).

Definition parse_sed_string (pair : ptree) : outcome (str * str * str) :=
  let parts := t_kids pair in
  match nth_error parts 0, nth_error parts 1 with
  | Some p, Some r =>
      match t_text p with
      | [] => Err                                         (* "Empty pattern in sed string" *)
      | _ => Ok (t_text p, t_text r, match nth_error parts 2 with Some f => t_text f | None => [] end)
      end
  | _, _ => Panic
  end.

Definition parse_replace (pair : ptree) : outcome op :=
  bind (unwrap_first (t_kids pair)) (fun sed =>
  bind (parse_sed_string sed) (fun prf =>
    Ok (Replace (fst (fst prf)) (snd (fst prf)) (snd prf)))).

Definition parse_split_like (pair : ptree) : outcome op :=
  let parts := t_kids pair in
  bind (unwrap_first parts) (fun sp =>
    let sep := process_arg (t_text sp) in
    match nth_error parts 1 with
    | Some rp => bind (parse_range_spec rp) (fun r => Ok (Split sep r))
    | None => Ok (Split sep (Range None None false))
    end).

Definition space_sep : str := [32].

(* fn parse_map_inner_operation(pair) *)
Definition parse_map_inner_operation (pair : ptree) : outcome op :=
  match t_rule pair with
  | Some R_substring => omap Substring (extract_range_arg pair)
  | Some R_replace => parse_replace pair
  | Some R_append => omap Append (extract_single_arg pair)
  | Some R_prepend => omap Prepend (extract_single_arg pair)
  | Some R_surround => omap Surround (extract_single_arg pair)
  | Some R_quote => omap Surround (extract_single_arg pair)
  | Some R_upper => Ok Upper
  | Some R_lower => Ok Lower
  | Some R_trim => Ok (Trim (parse_trim_chars pair) (parse_trim_direction pair))
  | Some R_pad => parse_pad_operation pair
  | Some R_reverse => Ok Reverse
  | Some R_strip_ansi => Ok StripAnsi
  | Some R_map_regex_extract => parse_regex_extract_operation pair
  | Some R_map_split => parse_split_like pair
  | Some R_map_join => omap Join (extract_single_arg pair)
  | Some R_map_slice => omap Slice (extract_range_arg pair)
  | Some R_map_sort => Ok (Sort (parse_sort_direction pair))
  | Some R_map_unique => Ok Unique
  | Some R_map_filter => omap Filter (extract_single_arg_raw pair)
  | Some R_map_filter_not => omap FilterNot (extract_single_arg_raw pair)
  | _ => Err
  end.

(* fn parse_map_operation(pair) *)
Definition parse_map_operation (pair : ptree) : outcome op :=
  bind (unwrap_first (t_kids pair)) (fun map_op_pair =>
  bind (unwrap_first (t_kids map_op_pair)) (fun list_pair =>
  bind (mapM (fun op_pair => bind (unwrap_first (t_kids op_pair)) parse_map_inner_operation) (t_kids list_pair))
       (fun ops => Ok (Map ops)))).

(* fn parse_operation(pair) *)
Definition parse_operation (pair : ptree) : outcome op :=
  match t_rule pair with
  | Some R_shorthand_range => bind (parse_range_spec pair) (fun r => Ok (Split space_sep r))
  | Some R_shorthand_index =>
      (* after fix 6641047: a parse error, not an unwrap *)
      match parse_isize (t_text pair) with
      | Some i => Ok (Split space_sep (Index i))
      | None => Err
      end
  | Some R_split => parse_split_like pair
  | Some R_join => omap Join (extract_single_arg pair)
  | Some R_substring => omap Substring (extract_range_arg pair)
  | Some R_replace => parse_replace pair
  | Some R_upper => Ok Upper
  | Some R_lower => Ok Lower
  | Some R_trim => Ok (Trim (parse_trim_chars pair) (parse_trim_direction pair))
  | Some R_append => omap Append (extract_single_arg pair)
  | Some R_prepend => omap Prepend (extract_single_arg pair)
  | Some R_surround => omap Surround (extract_single_arg pair)
  | Some R_quote => omap Surround (extract_single_arg pair)
  | Some R_strip_ansi => Ok StripAnsi
  | Some R_filter => omap Filter (extract_single_arg_raw pair)
  | Some R_filter_not => omap FilterNot (extract_single_arg_raw pair)
  | Some R_slice => omap Slice (extract_range_arg pair)
  | Some R_sort => Ok (Sort (parse_sort_direction pair))
  | Some R_reverse => Ok Reverse
  | Some R_unique => Ok Unique
  | Some R_pad => parse_pad_operation pair
  | Some R_regex_extract | Some R_map_regex_extract => parse_regex_extract_operation pair
  | Some R_map => parse_map_operation pair
  | _ => Err
  end.

(* pub fn parse_template(template) -> Result<(Vec<StringOp>, bool), String> *)
Definition parse_template_tree (top : ptree) : outcome (list op * bool) :=
  (* for pair in pairs.into_inner(): operation_list / debug_flag / anything else ignored *)
  (fix go (l : list ptree) (ops : list op) (dbg : bool) : outcome (list op * bool) :=
     match l with
     | [] => Ok (ops, dbg)
     | p :: l' =>
         match t_rule p with
         | Some R_operation_list =>
             bind (mapM (fun op_pair => bind (unwrap_first (t_kids op_pair)) parse_operation) (t_kids p))
                  (fun more => go l' (ops ++ more) dbg)
         | Some R_debug_flag => go l' ops true
         | _ => go l' ops dbg
         end
     end) (t_kids top) [] false.

Definition parse_template (s : str) : outcome (list op * bool) :=
  match run r_template false s with
  | None => Err                                           (* "Parse error: ..." *)
  | Some (_, pairs, _) => bind (unwrap_first pairs) parse_template_tree
  end.
