(* The documented surface syntax: escapes and the canonical printer. *)
From SP Require Export Model.Convert.
From Coq Require Import Decimal.
Local Open Scope N_scope.

(* the documented escapes: \: \| \{ \} \\ and \n \t \r for the control characters *)
Definition esc_cp (c : N) : str :=
  if (N.eqb c 58 || N.eqb c 124 || N.eqb c 123 || N.eqb c 125 || N.eqb c 92)%bool then [92; c]
  else if N.eqb c 10 then [92; 110]
  else if N.eqb c 9 then [92; 116]
  else if N.eqb c 13 then [92; 114]
  else [c].
Definition esc (s : str) : str := flat_map esc_cp s.

(* decimal numerals *)
Fixpoint uint_cps (d : uint) : str :=
  match d with
  | Nil => []
  | D0 d' => 48 :: uint_cps d' | D1 d' => 49 :: uint_cps d' | D2 d' => 50 :: uint_cps d'
  | D3 d' => 51 :: uint_cps d' | D4 d' => 52 :: uint_cps d' | D5 d' => 53 :: uint_cps d'
  | D6 d' => 54 :: uint_cps d' | D7 d' => 55 :: uint_cps d' | D8 d' => 56 :: uint_cps d'
  | D9 d' => 57 :: uint_cps d'
  end.
Definition print_N (n : N) : str := uint_cps (N.to_uint n).
Definition print_Z (z : Z) : str :=
  if Z.ltb z 0 then 45 :: print_N (Z.to_N (Z.opp z)) else print_N (Z.to_N z).

Definition print_optz (o : option Z) : str := match o with Some z => print_Z z | None => [] end.
Definition dots (inc : bool) : str := if inc then [46; 46; 61] else [46; 46].
Definition print_range (r : range) : str :=
  match r with
  | Index i => print_Z i
  | Range a b inc => print_optz a ++ dots inc ++ print_optz b
  end.
