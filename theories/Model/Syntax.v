(* The documented surface syntax: escapes and the canonical printer. *)
From SP Require Export Model.Convert.
From Coq Require Import Decimal.
Local Open Scope N_scope.

(* the documented escapes: \: \| \{ \} \\ and \n \t \r for the control characters *)
Definition esc_cp (c : N) : str :=
  if (N.eqb c 58 || N.eqb c 124 || N.eqb c 123 || N.eqb c 125 || N.eqb c 92)%bool then [92; c]
  else if N.eqb c 10 then [92; 110]
  else if N.eqb c 9 then [92; 116]
  else if N.eqb c 13 then [92; 114]
  else [c].
Definition esc (s : str) : str := flat_map esc_cp s.

(* decimal numerals *)
Fixpoint uint_cps (d : uint) : str :=
  match d with
  | Nil => []
  | D0 d' => 48 :: uint_cps d' | D1 d' => 49 :: uint_cps d' | D2 d' => 50 :: uint_cps d'
  | D3 d' => 51 :: uint_cps d' | D4 d' => 52 :: uint_cps d' | D5 d' => 53 :: uint_cps d'
  | D6 d' => 54 :: uint_cps d' | D7 d' => 55 :: uint_cps d' | D8 d' => 56 :: uint_cps d'
  | D9 d' => 57 :: uint_cps d'
  end.
Definition print_N (n : N) : str := uint_cps (N.to_uint n).
Definition print_Z (z : Z) : str :=
  if Z.ltb z 0 then 45 :: print_N (Z.to_N (Z.opp z)) else print_N (Z.to_N z).

Definition print_optz (o : option Z) : str := match o with Some z => print_Z z | None => [] end.
Definition dots (inc : bool) : str := if inc then [46; 46; 61] else [46; 46].
Definition print_range (r : range) : str :=
  match r with
  | Index i => print_Z i
  | Range a b inc => print_optz a ++ dots inc ++ print_optz b
  end.

(* ---- the canonical printer of the documented syntax ------------------------------
   One spelling per operation, as the documentation writes it: keyword, then the
   arguments separated by ':', text arguments escaped with [esc].  Operations that
   take a regular expression (replace, filter, filter_not, regex_extract) are outside
   this printer: their argument is raw text with its own lexical rules. *)
Definition print_tdir (d : tdir) : str := match d with TLeft => s_left | TRight => s_right | TBoth => s_both end.
Definition print_pdir (d : pdir) : str := match d with PLeft => s_left | PRight => s_right | PBoth => s_both end.

Definition kw_split : str := [115; 112; 108; 105; 116].
Definition kw_join : str := [106; 111; 105; 110].
Definition kw_upper : str := [117; 112; 112; 101; 114].
Definition kw_lower : str := [108; 111; 119; 101; 114].
Definition kw_trim : str := [116; 114; 105; 109].
Definition kw_substring : str := [115; 117; 98; 115; 116; 114; 105; 110; 103].
Definition kw_append : str := [97; 112; 112; 101; 110; 100].
Definition kw_prepend : str := [112; 114; 101; 112; 101; 110; 100].
Definition kw_surround : str := [115; 117; 114; 114; 111; 117; 110; 100].
Definition kw_strip_ansi : str := [115; 116; 114; 105; 112; 95; 97; 110; 115; 105].
Definition kw_slice : str := [115; 108; 105; 99; 101].
Definition kw_map : str := [109; 97; 112].
Definition kw_sort : str := [115; 111; 114; 116].
Definition kw_reverse : str := [114; 101; 118; 101; 114; 115; 101].
Definition kw_unique : str := [117; 110; 105; 113; 117; 101].
Definition kw_pad : str := [112; 97; 100].

(* an operation that is not `map`, as written at top level and inside map:{...} *)
Definition print_simple (o : op) : str :=
  match o with
  | Split sep r => kw_split ++ 58 :: esc sep ++ 58 :: print_range r
  | Join sep => kw_join ++ 58 :: esc sep
  | Upper => kw_upper
  | Lower => kw_lower
  | Trim [] d => kw_trim ++ 58 :: print_tdir d
  | Trim chars d => kw_trim ++ 58 :: esc chars ++ 58 :: print_tdir d
  | Substring r => kw_substring ++ 58 :: print_range r
  | Append s => kw_append ++ 58 :: esc s
  | Prepend s => kw_prepend ++ 58 :: esc s
  | Surround s => kw_surround ++ 58 :: esc s
  | StripAnsi => kw_strip_ansi
  | Slice r => kw_slice ++ 58 :: print_range r
  | Sort Asc => kw_sort
  | Sort Desc => kw_sort ++ 58 :: s_desc
  | Reverse => kw_reverse
  | Unique => kw_unique
  | Pad w c d => kw_pad ++ 58 :: print_N w ++ 58 :: esc [c] ++ 58 :: print_pdir d
  | Replace _ _ _ | Filter _ | FilterNot _ | RegexExtract _ _ | Map _ => []
  end.

Fixpoint print_pipe (p : op -> str) (ops : list op) : str :=
  match ops with
  | [] => []
  | [o] => p o
  | o :: rest => p o ++ 124 :: print_pipe p rest
  end.

Definition print_op (o : op) : str :=
  match o with
  | Map body => kw_map ++ 58 :: 123 :: print_pipe print_simple body ++ [125]
  | _ => print_simple o
  end.

(* a single-block template: "{" ops "}" *)
Definition print_block (ops : list op) : str := 123 :: print_pipe print_op ops ++ [125].

(* the operations this printer covers, with every number inside the machine range *)
Definition optz_ok (o : option Z) : bool := match o with Some z => in_isize z | None => true end.
Definition range_ok (r : range) : bool :=
  match r with Index i => in_isize i | Range a b _ => (optz_ok a && optz_ok b)%bool end.
Definition simple_ok (o : op) : bool :=
  match o with
  | Split _ r | Substring r | Slice r => range_ok r
  | Pad w _ _ => N.leb w usize_max
  | Join _ | Upper | Lower | Trim _ _ | Append _ | Prepend _ | Surround _ | StripAnsi | Sort _ | Reverse | Unique => true
  | Replace _ _ _ | Filter _ | FilterNot _ | RegexExtract _ _ | Map _ => false
  end.
Definition printable (o : op) : bool :=
  match o with
  | Map body => (match body with [] => false | _ => true end && forallb simple_ok body)%bool
  | _ => simple_ok o
  end.

(* ---- every documented spelling ------------------------------------------------------
   [spells_simple o t]: the text t is a documented way of writing the operation o,
   at top level and inside map:{...} alike. *)
Definition kw_quote : str := [113; 117; 111; 116; 101].
Definition s_asc : str := [97; 115; 99].
Inductive spells_simple : op -> str -> Prop :=
| sp_canon o : simple_ok o = true -> spells_simple o (print_simple o)
| sp_quote s : spells_simple (Surround s) (kw_quote ++ 58 :: esc s)
| sp_trim_bare : spells_simple (Trim [] TBoth) kw_trim
| sp_trim_chars s : is_direction_word (esc s) = false -> spells_simple (Trim s TBoth) (kw_trim ++ 58 :: esc s)
| sp_sort_asc : spells_simple (Sort Asc) (kw_sort ++ 58 :: s_asc)
| sp_pad_width w : N.leb w usize_max = true -> spells_simple (Pad w 32 PRight) (kw_pad ++ 58 :: print_N w)
| sp_pad_char w c : N.leb w usize_max = true -> spells_simple (Pad w c PRight) (kw_pad ++ 58 :: print_N w ++ 58 :: esc [c]).

(* "a|b|c" *)
Definition pipe_tail_text (ts : list str) : str := flat_map (fun t => 124 :: t) ts.
Definition pipe_text (ts : list str) : str :=
  match ts with [] => [] | t :: rest => t ++ pipe_tail_text rest end.

(* at top level there are two more: the shorthand for a split on spaces, and map *)
Inductive spells : op -> str -> Prop :=
| sp_simple o t : spells_simple o t -> spells o t
| sp_shorthand r : range_ok r = true -> spells (Split space_sep r) (print_range r)
| sp_map (items : list (op * str)) : items <> [] ->
    Forall (fun it => spells_simple (fst it) (snd it)) items ->
    spells (Map (map fst items)) (kw_map ++ 58 :: 123 :: pipe_text (map snd items) ++ [125]).

(* ---- the operations that take a regular expression -------------------------------------
   Their arguments are RAW text (no escape decoding); what can be written is limited by the
   lexical rules of the argument, stated here as boolean predicates on the text. *)
Definition arg_special (c : N) : bool := (N.eqb c 58 || N.eqb c 124 || N.eqb c 123 || N.eqb c 125 || N.eqb c 92)%bool.
(* raw text made of units: a backslash with the character after it, or one character allowed by okc *)
Fixpoint units (okc : N -> bool) (s : str) : bool :=
  match s with
  | [] => true
  | c :: r => if N.eqb c 92 then match r with [] => false | _ :: r' => units okc r' end
              else (okc c && units okc r)%bool
  end.
(* a regex argument: no bare : | { } *)
Definition regex_units : str -> bool := units (fun c => negb (arg_special c)).
(* a part of s/pattern/replacement/flags: no bare / *)
Definition sed_units : str -> bool := units (fun c => negb (N.eqb c 47)).
Definition is_letter (c : N) : bool := ((N.leb 97 c && N.leb c 122) || (N.leb 65 c && N.leb c 90))%bool.

Definition kw_replace : str := [114; 101; 112; 108; 97; 99; 101].
Definition kw_filter : str := [102; 105; 108; 116; 101; 114].
Definition kw_filter_not : str := [102; 105; 108; 116; 101; 114; 95; 110; 111; 116].
Definition kw_regex_extract : str := [114; 101; 103; 101; 120; 95; 101; 120; 116; 114; 97; 99; 116].

Inductive spells_regex : op -> str -> Prop :=
| sp_replace p r f : p <> [] -> sed_units p = true -> sed_units r = true -> forallb is_letter f = true ->
    spells_regex (Replace p r f) (kw_replace ++ 58 :: 115 :: 47 :: p ++ 47 :: r ++ 47 :: f)
| sp_filter p : regex_units p = true -> spells_regex (Filter p) (kw_filter ++ 58 :: p)
| sp_filter_not p : regex_units p = true -> spells_regex (FilterNot p) (kw_filter_not ++ 58 :: p)
| sp_extract p : regex_units p = true -> spells_regex (RegexExtract p None) (kw_regex_extract ++ 58 :: p)
| sp_extract_group p g : regex_units p = true -> N.leb g usize_max = true ->
    spells_regex (RegexExtract p (Some g)) (kw_regex_extract ++ 58 :: p ++ 58 :: print_N g).

(* ---- text arguments written with ANY escapes ------------------------------------------------
   The documented rule: "\X is X" (\n \t \r are the control characters).  A text argument may
   therefore be written in many ways -- a\:b, \a\:\b, ... -- all of them raw texts made of
   escaped pairs and characters other than : | { } (regex_units); its meaning is process_arg. *)
Definition kw_raw_ops : list (str * (str -> op)) :=
  [(kw_append, Append); (kw_prepend, Prepend); (kw_surround, Surround); (kw_quote, Surround); (kw_join, Join)].
Inductive spells_raw : op -> str -> Prop :=
| sp_raw kw mk a : In (kw, mk) kw_raw_ops -> regex_units a = true -> spells_raw (mk (process_arg a)) (kw ++ 58 :: a).
