(* mod.rs: StringOp, RangeSpec, Value. *)
From SP Require Export Base.Env Model.Range Model.Split.

Inductive tdir := TBoth | TLeft | TRight.
Inductive sdir := Asc | Desc.
Inductive pdir := PLeft | PRight | PBoth.

Inductive op :=
| Split (sep : str) (r : range)
| Join (sep : str)
| Replace (pat repl flags : str)
| Upper
| Lower
| Trim (chars : str) (d : tdir)
| Substring (r : range)
| Append (s : str)
| Prepend (s : str)
| Surround (s : str)
| StripAnsi
| Filter (p : str)
| FilterNot (p : str)
| Slice (r : range)
| Map (body : list op)
| Sort (d : sdir)
| Reverse
| Unique
| Pad (w : N) (c : N) (d : pdir)
| RegexExtract (p : str) (g : option N).

Inductive value := VStr (s : str) | VList (l : list str).
Inductive kind := KStr | KList.
Definition kind_of (v : value) : kind := match v with VStr _ => KStr | VList _ => KList end.

(* a proper induction principle for the nested type *)
Section OpInd.
  Variable P : op -> Prop.
  Hypothesis HSplit : forall s r, P (Split s r).
  Hypothesis HJoin : forall s, P (Join s).
  Hypothesis HReplace : forall a b c, P (Replace a b c).
  Hypothesis HUpper : P Upper.
  Hypothesis HLower : P Lower.
  Hypothesis HTrim : forall c d, P (Trim c d).
  Hypothesis HSubstring : forall r, P (Substring r).
  Hypothesis HAppend : forall s, P (Append s).
  Hypothesis HPrepend : forall s, P (Prepend s).
  Hypothesis HSurround : forall s, P (Surround s).
  Hypothesis HStripAnsi : P StripAnsi.
  Hypothesis HFilter : forall p, P (Filter p).
  Hypothesis HFilterNot : forall p, P (FilterNot p).
  Hypothesis HSlice : forall r, P (Slice r).
  Hypothesis HMap : forall body, Forall P body -> P (Map body).
  Hypothesis HSort : forall d, P (Sort d).
  Hypothesis HReverse : P Reverse.
  Hypothesis HUnique : P Unique.
  Hypothesis HPad : forall w c d, P (Pad w c d).
  Hypothesis HRegexExtract : forall p g, P (RegexExtract p g).

  Fixpoint op_ind' (o : op) : P o :=
    match o with
    | Split s r => HSplit s r
    | Join s => HJoin s
    | Replace a b c => HReplace a b c
    | Upper => HUpper
    | Lower => HLower
    | Trim c d => HTrim c d
    | Substring r => HSubstring r
    | Append s => HAppend s
    | Prepend s => HPrepend s
    | Surround s => HSurround s
    | StripAnsi => HStripAnsi
    | Filter p => HFilter p
    | FilterNot p => HFilterNot p
    | Slice r => HSlice r
    | Map body =>
        HMap body ((fix go (l : list op) : Forall P l :=
                      match l with
                      | [] => Forall_nil P
                      | o' :: l' => Forall_cons o' (op_ind' o') (go l')
                      end) body)
    | Sort d => HSort d
    | Reverse => HReverse
    | Unique => HUnique
    | Pad w c d => HPad w c d
    | RegexExtract p g => HRegexExtract p g
    end.
End OpInd.

(* shared list primitives (sort is total on a total order: any sorted
   permutation is the same list, see Proofs/ListOps.v) *)
Fixpoint insert_sorted (x : str) (l : list str) : list str :=
  match l with
  | [] => [x]
  | y :: l' => if str_leb x y then x :: l else y :: insert_sorted x l'
  end.
Fixpoint sort_asc (l : list str) : list str :=
  match l with [] => [] | x :: l' => insert_sorted x (sort_asc l') end.

Fixpoint unique_go (seen : list str) (l : list str) : list str :=
  match l with
  | [] => []
  | x :: l' => if existsb (str_eqb x) seen then unique_go seen l'
               else x :: unique_go (x :: seen) l'
  end.
Definition unique (l : list str) : list str := unique_go [] l.

Definition trim_with (f : N -> bool) (d : tdir) (s : str) : str :=
  match d with
  | TBoth => drop_while_end f (drop_while f s)
  | TLeft => drop_while f s
  | TRight => drop_while_end f s
  end.

Definition pad_str (w : N) (c : N) (d : pdir) (s : str) : str :=
  let len := N.of_nat (length s) in
  if N.leb w len then s else
  let need := N.to_nat (w - len) in
  match d with
  | PLeft => repeat_cp c need ++ s
  | PRight => s ++ repeat_cp c need
  | PBoth => let l := Nat.div need 2 in repeat_cp c l ++ s ++ repeat_cp c (need - l)
  end.

(* "(?" ++ those of i m s x present, in that order ++ ")", or nothing *)
Definition flag_letters : str := [105; 109; 115; 120]%N.
Definition inline_flags (flags : str) : str := filter (fun c => mem_cp c flags) flag_letters.
Definition flag_prefix (flags : str) : str :=
  match inline_flags flags with
  | [] => []
  | fl => [40; 63]%N ++ fl ++ [41]%N
  end.
Definition has_g (flags : str) : bool := mem_cp 103%N flags.
