(* What the code does: mod.rs get_cached_split / get_cached_regex /
   apply_single_operation / apply_ops_internal, with every fast path, shortcut
   and cache access, written in the [prog] effect interface. *)
From SP Require Export Model.Eff Gen.Consts.

Section Impl.
Variable E : Env.

(* pub(crate) fn get_cached_split(input, separator) -> Vec<String> *)
Definition raw_split (input sep : str) : list str :=
  if N.eqb (utf8_len sep) 1
  then split_char input (hd 0%N sep)         (* memchr path: separator.len() == 1 *)
  else split input sep.                       (* input.split(separator) *)

Definition get_cached_split (input sep : str) : prog (list str) :=
  SplitGet (input, sep) (fun hit =>
    match hit with
    | Some v => Ret v
    | None =>
        let parts := raw_split input sep in
        if (N.leb (utf8_len input) split_cache_max_input
            && N.leb (N.of_nat (length parts)) split_cache_max_parts)%bool
        then SplitPut (input, sep) parts (Ret parts)
        else Ret parts
    end).

(* fn get_cached_regex(pattern) -> Result<Regex, String>; the compiled regex is
   a function of the pattern, so it is represented by the pattern itself *)
Definition get_cached_regex (p : str) : prog (outcome unit) :=
  RegexGet p (fun hit =>
    if hit then Ret (Ok tt)
    else if re_valid E p then RegexPut p (Ret (Ok tt)) else Ret Err).

(* ascii fast paths *)
Definition ascii_reverse (s : str) : option str := if is_ascii s then Some (frev s) else None.
Definition ascii_trim (s : str) : option str :=
  if is_ascii s then Some (trim_with is_ws TBoth s) else None.   (* s.trim() after fix 0a01f1f *)

Definition impl_replace (pat repl flags s : str) : prog (outcome str) :=
  if (replace_shortcut_present
      && negb (existsb (fun f => mem_cp f flags) replace_shortcut_blockers)
      && negb (existsb (fun c => mem_cp c replace_meta) pat)
      && negb (contains s pat))%bool
  then Ret (Ok s)
  else
    let pattern_to_use :=
      match flags with
      | [] => pat
      | _ => match filter (fun c => mem_cp c flags) replace_flag_letters with
             | [] => pat
             | fl => [40; 63]%N ++ fl ++ [41]%N ++ pat
             end
      end in
    pbind (get_cached_regex pattern_to_use) (fun r =>
      match r with
      | Ok _ => Ret (Ok (re_replace E (mem_cp 103%N flags) pattern_to_use s repl))
      | Err => Ret Err
      | Panic => Ret Panic
      end).

Definition ret_o {A} (a : outcome A) : prog (outcome A) := Ret a.

(* fn apply_single_operation(op, val, default_sep) -> Result<Value, String> *)
Definition impl_single (o : op) (v : value) (sep : str) : prog (outcome (value * str)) :=
  match o with
  | Split sp r =>
      pbind (match v with
             | VStr s => get_cached_split s sp
             | VList l => pbind (pmapM (fun s => get_cached_split s sp) l) (fun ps => Ret (concat ps))
             end) (fun parts =>
      (* *default_sep = get_interned_separator(sep) : the same text *)
      ret_o (bind (Ok (apply_range_m parts r)) (fun result =>
        match r with
        | Index _ =>
            match result with
            | [x] => Ok (VStr x, sp)
            | [] => Ok (VStr [], sp)
            | _ => Ok (VList result, sp)
            end
        | Range _ _ _ => Ok (VList result, sp)
        end)))
  | Join sp => ret_o (Ok (match v with VList l => VStr (join sp l) | VStr s => VStr s end, sp))
  | Slice r =>
      ret_o (match v with
             | VList l => bind (Ok (apply_range_m l r)) (fun l' => Ok (VList l', sep))
             | VStr _ => Err
             end)
  | Filter p =>
      pbind (get_cached_regex p) (fun re =>
        ret_o (bind re (fun _ =>
          Ok (match v with
              | VList l => VList (filter (fun s => re_is_match E p s) l)
              | VStr s => VStr (if re_is_match E p s then s else [])
              end, sep))))
  | FilterNot p =>
      pbind (get_cached_regex p) (fun re =>
        ret_o (bind re (fun _ =>
          Ok (match v with
              | VList l => VList (filter (fun s => negb (re_is_match E p s)) l)
              | VStr s => VStr (if re_is_match E p s then [] else s)
              end, sep))))
  | Sort d =>
      ret_o (match v with
             | VList l => Ok (VList (match d with Asc => sort_asc l | Desc => frev (sort_asc l) end), sep)
             | VStr _ => Err
             end)
  | Reverse =>
      ret_o (Ok (match v with
                 | VStr s => VStr (match ascii_reverse s with Some r => r | None => frev s end)
                 | VList l => VList (frev l)
                 end, sep))
  | Unique => ret_o (match v with VList l => Ok (VList (unique l), sep) | VStr _ => Err end)
  | Substring r =>
      ret_o (match v with
             | VStr s =>
                 if is_ascii s
                 then bind (Ok (apply_range_m (utf8 s) r)) (fun bytes => Ok (VStr bytes, sep))
                 else bind (Ok (apply_range_m s r)) (fun cs => Ok (VStr cs, sep))
             | VList _ => Err
             end)
  | Replace pat repl flags =>
      match v with
      | VStr s => pbind (impl_replace pat repl flags s) (fun r =>
                    ret_o (bind r (fun s' => Ok (VStr s', sep))))
      | VList _ => ret_o Err
      end
  | Upper => ret_o (match v with VStr s => Ok (VStr (to_upper E s), sep) | VList _ => Err end)
  | Lower => ret_o (match v with VStr s => Ok (VStr (to_lower E s), sep) | VList _ => Err end)
  | Trim chars d =>
      ret_o (match v with
             | VStr s =>
                 Ok (VStr (
                   if (match chars with [] => true | _ => false end
                       || match trim_with is_ws TBoth chars with [] => true | _ => false end)%bool
                   then match d with
                        | TBoth => match ascii_trim s with Some t => t | None => trim_with is_ws TBoth s end
                        | TLeft => trim_with is_ws TLeft s
                        | TRight => trim_with is_ws TRight s
                        end
                   else trim_with (fun c => mem_cp c chars) d s), sep)
             | VList _ => Err
             end)
  | Append t => ret_o (match v with VStr s => Ok (VStr (s ++ t), sep) | VList _ => Err end)
  | Prepend t => ret_o (match v with VStr s => Ok (VStr (t ++ s), sep) | VList _ => Err end)
  | Surround t => ret_o (match v with VStr s => Ok (VStr (t ++ s ++ t), sep) | VList _ => Err end)
  | StripAnsi => ret_o (match v with VStr s => Ok (VStr (strip_ansi E s), sep) | VList _ => Err end)
  | Pad w c d =>
      ret_o (match v with
             | VStr s =>
                 let current_len := N.of_nat (length s) in
                 Ok (VStr (
                   if N.leb w current_len then s else
                   let need := N.to_nat (w - current_len) in
                   match d with
                   | PLeft => repeat_cp c need ++ s
                   | PRight => s ++ repeat_cp c need
                   | PBoth => let left := Nat.div need 2 in
                              repeat_cp c left ++ s ++ repeat_cp c (need - left)
                   end), sep)
             | VList _ => Err
             end)
  | RegexExtract p g =>
      match v with
      | VStr s =>
          pbind (get_cached_regex p) (fun re =>
            ret_o (bind re (fun _ =>
              Ok (VStr (match (match g with
                               | Some i => re_group E p s i
                               | None => re_find E p s
                               end) with Some m => m | None => [] end), sep))))
      | VList _ => ret_o Err
      end
  | Map _ => ret_o Err      (* "Map operations should be handled separately" *)
  end.

(* the tracer: stderr is not modelled; what is modelled is that every call
   returns (after fixes 78a3e4d / 109a40c there is no partial operation left in
   it).  [trace_value] computes the preview the tracer formats. *)
(* &s[..n]: panics unless byte offset n is a character boundary inside s *)
Fixpoint byte_prefix (s : str) (n : N) : outcome str :=
  if N.eqb n 0 then Ok [] else
  match s with
  | [] => Panic
  | c :: s' =>
      let w := utf8_len_cp c in
      if N.ltb n w then Panic else omap (cons c) (byte_prefix s' (n - w))
  end.
Definition trace_preview (s : str) : outcome str :=
  if N.ltb debug_value_limit (utf8_len s)
  then (if debug_value_by_chars then Ok (firstn (N.to_nat debug_value_take) s)
        else byte_prefix s debug_value_take)
  else Ok s.
Definition trace_value (v : value) : outcome unit :=
  match v with
  | VStr s => bind (trace_preview s) (fun _ => Ok tt)
  | VList l => Ok tt
  end.

(* end of apply_ops_internal: tracer.pipeline_end, then render *)
Definition impl_finish (dbg : bool) (v : value) (sep : str) : prog (outcome str) :=
  ret_o (bind (if dbg then trace_value v else Ok tt) (fun _ =>
    Ok (match v with
        | VStr s => s
        | VList l => match l with [] => [] | _ => join sep l end
        end))).

(* one iteration of the loop in apply_ops_internal: Map is handled there (a
   recursive call per item with a fresh " " separator), everything else goes to
   apply_single_operation *)
Fixpoint impl_step (dbg : bool) (o : op) (v : value) (sep : str) {struct o}
  : prog (outcome (value * str)) :=
  match o with
  | Map body =>
      match v with
      | VList l =>
          pbind (pmapM_o (fun item =>
                   (fix go (b : list op) (v : value) (sep : str) {struct b} : prog (outcome str) :=
                      match b with
                      | [] => impl_finish dbg v sep
                      | o' :: b' =>
                          pbind (if dbg then ret_o (trace_value v) else ret_o (Ok tt)) (fun t =>
                          match t with
                          | Ok _ =>
                            pbind (impl_step dbg o' v sep) (fun r =>
                              match r with
                              | Ok (v', sep') => go b' v' sep'
                              | Err => Ret Err
                              | Panic => Ret Panic
                              end)
                          | Err => Ret Err
                          | Panic => Ret Panic
                          end)
                      end) body (VStr item) [32%N]) l)
                (fun r => ret_o (bind r (fun l' => Ok (VList l', sep))))
      | VStr _ => ret_o Err
      end
  | _ => impl_single o v sep
  end.

(* pub fn apply_ops_internal(input, ops, debug, tracer) -> Result<String, String> *)
Fixpoint impl_ops (dbg : bool) (ops : list op) (v : value) (sep : str) {struct ops}
  : prog (outcome str) :=
  match ops with
  | [] => impl_finish dbg v sep
  | o :: ops' =>
      pbind (if dbg then ret_o (trace_value v) else ret_o (Ok tt)) (fun t =>
      match t with
      | Ok _ =>
        pbind (impl_step dbg o v sep) (fun r =>
          match r with
          | Ok (v', sep') => impl_ops dbg ops' v' sep'
          | Err => Ret Err
          | Panic => Ret Panic
          end)
      | Err => Ret Err
      | Panic => Ret Panic
      end)
  end.

Definition impl_run (dbg : bool) (ops : list op) (x : str) : prog (outcome str) :=
  impl_ops dbg ops (VStr x) [32%N].

End Impl.
