(* Executable model of fast_strip_ansi::strip_ansi_string (fast-strip-ansi 0.13.1)
   driving vt_push_parser::VTPushParser<VT_PARSER_INTEREST_NONE> (0.13.1).

   Definitions only; proofs are in Proofs/AnsiP.v, vm_compute regression
   examples in Proofs/AnsiTest.v, the behaviour table and the experiments the
   model was checked against in design-notes/ansi-notes.md.

   What is modelled
   - the parser's byte-level state machine restricted to INTEREST = NONE (so
     ESC [ goes straight to CsiIgnore and ESC P to DcsIgnore; CsiEntry/Param/
     Int, DcsEntry/Param/Int/Passthrough/Esc are unreachable and omitted);
   - the two intermediate-byte slots [ints.data] because [VTIntermediate::push]
     can fail (slot full, or duplicate of slot 0) and a failed push sends the
     machine to Ground; the slots are cleared only on Ground -> Escape;
   - the chunking of VTEvent::Raw events: in Ground the parser emits maximal
     runs of bytes that are not in ENDS_GROUND, one event per run;
   - the wrapper: per-chunk String::from_utf8_lossy, the "chunk is the whole
     input => keep the borrowed input" shortcut, and has_text.
   priv_prefix, params, held_byte only influence non-Raw events, which the
   wrapper ignores. *)
From SP Require Export Base.Outcome.
Local Open Scope N_scope.

(* ---------- byte classes (vt-push-parser/src/lib.rs, def_pattern!) ---------- *)

Definition b_BEL : N := 7.
Definition b_CAN : N := 24.
Definition b_SUB : N := 26.
Definition b_ESC : N := 27.
Definition b_DEL : N := 127.
Definition b_BSLASH : N := 92.   (* ST_FINAL *)

(* is_c0: 0x00..=0x08 | 0x0b..=0x0c | 0x0e..=0x1f  (so \t \n \r are NOT c0) *)
Definition is_c0 (b : N) : bool :=
  (b <=? 8) || ((11 <=? b) && (b <=? 12)) || ((14 <=? b) && (b <=? 31)).
Definition is_intermediate (b : N) : bool := (32 <=? b) && (b <=? 47).
Definition is_final (b : N) : bool := (64 <=? b) && (b <=? 126).
Definition is_digit (b : N) : bool := (48 <=? b) && (b <=? 57).
Definition is_priv_no_q (b : N) : bool := (60 <=? b) && (b <=? 62).
Definition is_can_sub (b : N) : bool := (b =? b_CAN) || (b =? b_SUB).

(* ENDS_GROUND = is_c0 || DEL ; ENDS_CSI = is_final || ESC || CAN || SUB *)
Definition ends_ground (b : N) : bool := is_c0 b || (b =? b_DEL).
Definition ends_csi (b : N) : bool := is_final b || (b =? b_ESC) || is_can_sub b.

(* ---------- parser state ---------- *)

Inductive vt_state :=
| Ground | Escape | EscInt | EscSs2 | EscSs3 | CsiIgnore
| DcsIgnore | DcsIgnoreEsc | OscString | OscEsc | SosPmApcString | SpaEsc.

(* VTIntermediate { data: [u8; 2] }, 0 = empty slot *)
Definition ints := (N * N)%type.
Definition ints_empty : ints := (0, 0).

(* VTIntermediate::push: None = returned false (self unchanged) *)
Definition ints_push (i : ints) (c : N) : option ints :=
  let '(d0, d1) := i in
  if negb (is_intermediate c) then None
  else if d0 =? c then None
  else if d0 =? 0 then Some (c, d1)
  else if d1 =? 0 then Some (d0, c)
  else None.

(* push_with, INTEREST = 0, arms in source order.  Only the state change is
   kept: every VTAction produced outside Ground is None/Event(non-Raw)/End/
   Cancel/Buffer(Osc)/Hold(Osc), none of which reaches the wrapper as Raw. *)
Definition step (st : vt_state) (i : ints) (b : N) : vt_state * ints :=
  match st with
  | Ground =>
      if b =? b_ESC then (Escape, ints_empty)      (* clear_hdr_collectors *)
      else (Ground, i)
  | Escape =>
      if is_can_sub b then (Ground, i)
      else if b =? b_DEL then (Ground, i)
      else if is_intermediate b then
        match ints_push i b with Some i' => (EscInt, i') | None => (Ground, i) end
      else if b =? 63 (* ? *) then (EscInt, i)
      else if is_priv_no_q b then (Ground, i)
      else if b =? 91 (* [ *) then (CsiIgnore, i)
      else if b =? 80 (* P *) then (DcsIgnore, i)
      else if b =? 93 (* ] *) then (OscString, i)
      else if b =? 78 (* N *) then (EscSs2, i)
      else if b =? 79 (* O *) then (EscSs3, i)
      else if (b =? 88) || (b =? 94) || (b =? 95) (* X ^ _ *) then (SosPmApcString, i)
      else if is_final b || is_digit b then (Ground, i)
      else if b =? b_ESC then (Escape, i)
      else (Ground, i)
  | EscInt =>
      if is_can_sub b then (Ground, i)
      else if b =? b_DEL then (Ground, i)
      else if is_intermediate b then
        match ints_push i b with Some i' => (EscInt, i') | None => (Ground, i) end
      else if is_final b || is_digit b then (Ground, i)
      else if b =? b_ESC then (Escape, i)
      else (Ground, i)
  | EscSs2 | EscSs3 =>
      if is_can_sub b then (Ground, i)
      else if b =? b_ESC then (Escape, i)
      else (Ground, i)
  | CsiIgnore =>
      if is_can_sub b then (Ground, i)
      else if b =? b_DEL then (CsiIgnore, i)
      else if b =? b_ESC then (Escape, i)
      else if is_final b then (Ground, i)
      else (CsiIgnore, i)
  | DcsIgnore =>
      if is_can_sub b then (Ground, i)
      else if b =? b_DEL then (DcsIgnore, i)
      else if b =? b_ESC then (DcsIgnoreEsc, i)
      else (DcsIgnore, i)
  | DcsIgnoreEsc =>
      if is_can_sub b then (Ground, i)
      else if b =? b_BSLASH then (Ground, i)
      else if b =? b_DEL then (DcsIgnoreEsc, i)
      else if b =? b_ESC then (DcsIgnoreEsc, i)
      else (DcsIgnore, i)
  | OscString =>
      if is_can_sub b then (Ground, i)
      else if b =? b_DEL then (OscString, i)
      else if b =? b_BEL then (Ground, i)
      else if b =? b_ESC then (OscEsc, i)
      else (OscString, i)
  | OscEsc =>
      if b =? b_BSLASH then (Ground, i)
      else if b =? b_ESC then (OscEsc, i)
      else if b =? b_DEL then (OscEsc, i)
      else (OscString, i)
  | SosPmApcString =>
      if is_can_sub b then (Ground, i)
      else if b =? b_DEL then (SosPmApcString, i)
      else if b =? b_ESC then (SpaEsc, i)
      else (SosPmApcString, i)
  | SpaEsc =>
      if b =? b_BSLASH then (Ground, i)
      else if b =? b_DEL then (SpaEsc, i)
      else if b =? b_ESC then (SpaEsc, i)
      else (SosPmApcString, i)
  end.

(* ---------- Raw chunks ---------- *)

(* add a byte to the chunk that starts the remaining output *)
Definition push (b : N) (chunks : list (list N)) : list (list N) :=
  match chunks with
  | [] => [[b]]
  | c :: cs => (b :: c) :: cs
  end.

(* feed_with_internal: the list of Raw(..) payloads, in order.  A byte is raw
   text exactly when the machine is in Ground and the byte is not in
   ENDS_GROUND; an ENDS_GROUND byte closes the current run (modelled by opening
   a new, possibly empty, chunk: the source's [start != i] test is the
   [nonempty] filter in [raw_chunks]).  End of input inside a sequence emits
   nothing (the partial sequence is dropped). *)
Fixpoint run (st : vt_state) (i : ints) (bs : list N) : list (list N) :=
  match bs with
  | [] => []
  | b :: r =>
      let '(st', i') := step st i b in
      let rest := run st' i' r in
      match st with
      | Ground => if ends_ground b then [] :: rest else push b rest
      | _ => rest
      end
  end.

Definition nonempty (c : list N) : bool := match c with [] => false | _ :: _ => true end.

Definition raw_chunks (bs : list N) : list (list N) :=
  filter nonempty (run Ground ints_empty bs).

(* fast_strip_ansi::strip_ansi_bytes, as a byte string *)
Definition strip_bytes (bs : list N) : list N := concat (raw_chunks bs).

(* ---------- String::from_utf8_lossy (core::str::lossy::Utf8Chunks) ---------- *)

Definition REPL : N := 65533.
Definition is_cont (b : N) : bool := (128 <=? b) && (b <=? 191).
(* admissible range of the second byte, by lead byte *)
Definition snd_ok3 (b0 b1 : N) : bool :=
  ((if b0 =? 224 then 160 else 128) <=? b1) && (b1 <=? (if b0 =? 237 then 159 else 191)).
Definition snd_ok4 (b0 b1 : N) : bool :=
  ((if b0 =? 240 then 144 else 128) <=? b1) && (b1 <=? (if b0 =? 244 then 143 else 191)).

(* Every maximal invalid prefix (1, 2 or 3 bytes) becomes one U+FFFD and
   decoding resumes at the first byte that was not accepted. *)
Fixpoint utf8_decode (bs : list N) : str :=
  match bs with
  | [] => []
  | b0 :: r0 =>
      if b0 <? 128 then b0 :: utf8_decode r0
      else if (194 <=? b0) && (b0 <=? 223) then
        match r0 with
        | b1 :: r1 =>
            if is_cont b1 then ((b0 - 192) * 64 + (b1 - 128)) :: utf8_decode r1
            else REPL :: utf8_decode r0
        | [] => [REPL]
        end
      else if (224 <=? b0) && (b0 <=? 239) then
        match r0 with
        | b1 :: r1 =>
            if snd_ok3 b0 b1 then
              match r1 with
              | b2 :: r2 =>
                  if is_cont b2
                  then ((b0 - 224) * 4096 + (b1 - 128) * 64 + (b2 - 128)) :: utf8_decode r2
                  else REPL :: utf8_decode r1
              | [] => [REPL]
              end
            else REPL :: utf8_decode r0
        | [] => [REPL]
        end
      else if (240 <=? b0) && (b0 <=? 244) then
        match r0 with
        | b1 :: r1 =>
            if snd_ok4 b0 b1 then
              match r1 with
              | b2 :: r2 =>
                  if is_cont b2 then
                    match r2 with
                    | b3 :: r3 =>
                        if is_cont b3
                        then ((b0 - 240) * 262144 + (b1 - 128) * 4096
                              + (b2 - 128) * 64 + (b3 - 128)) :: utf8_decode r3
                        else REPL :: utf8_decode r2
                    | [] => [REPL]
                    end
                  else REPL :: utf8_decode r1
              | [] => [REPL]
              end
            else REPL :: utf8_decode r0
        | [] => [REPL]
        end
      else REPL :: utf8_decode r0
  end.

(* ---------- the wrapper: strip_ansi_string ---------- *)

(* output starts as Cow::Borrowed(s).  For every Raw(text): has_text = true;
   if text.len() == s.len() the event is skipped (output stays borrowed),
   otherwise from_utf8_lossy(text) is appended to an owned String.
   Result: if !has_text "" else output. *)
Definition strip_str (s : str) : str :=
  let bs := utf8 s in
  let n := length bs in
  let cs := raw_chunks bs in
  let whole (c : list N) := Nat.eqb (length c) n in
  match cs with
  | [] => []                                       (* has_text = false *)
  | _ :: _ =>
      if forallb whole cs then s                   (* still Cow::Borrowed(s) *)
      else flat_map (fun c => if whole c then [] else utf8_decode c) cs
  end.

(* the same thing without the shortcut (AnsiP.strip_str_chunks: equal for valid s) *)
Definition strip_str_plain (s : str) : str :=
  flat_map utf8_decode (run Ground ints_empty (utf8 s)).

(* ---------- Spec vocabulary: well-formed escape sequences ---------- *)

Inductive seq :=
| Csi (params inters : list N) (final : N)    (* ESC [ params inters final *)
| Osc (payload : list N) (st : bool)          (* ESC ] payload (ESC \ | BEL); st = true: ESC \ *)
| Esc2 (final : N)                            (* ESC final *)
| Esc3 (inter final : N)                      (* ESC inter final, e.g. ESC ( B *)
| Ss (three : bool) (ch : N)                  (* ESC N ch / ESC O ch (single shifts) *)
| Cstr (intro : N) (payload : list N).        (* ESC (P|X|^|_) payload ESC \ : DCS SOS PM APC *)

Definition is_param (b : N) : bool := (48 <=? b) && (b <=? 63).

(* payload code points that keep a control string open *)
Definition osc_cp_ok (c : N) : bool :=
  valid_cp c && negb ((c =? b_BEL) || (c =? b_CAN) || (c =? b_SUB) || (c =? b_ESC)).
Definition cstr_cp_ok (c : N) : bool :=
  valid_cp c && negb ((c =? b_CAN) || (c =? b_SUB) || (c =? b_ESC)).

(* ESC F with F in 0x30..0x7e, minus the bytes the machine treats as
   introducers: ? N O P X [ ] ^ _ *)
Definition esc2_final_ok (f : N) : bool :=
  (48 <=? f) && (f <=? 126)
  && negb ((f =? 63) || (f =? 78) || (f =? 79) || (f =? 80) || (f =? 88)
           || (f =? 91) || (f =? 93) || (f =? 94) || (f =? 95)).

Definition seq_ok (q : seq) : bool :=
  match q with
  | Csi p i f => forallb is_param p && forallb is_intermediate i && is_final f
  | Osc pl _ => forallb osc_cp_ok pl
  | Esc2 f => esc2_final_ok f
  | Esc3 i f => is_intermediate i && ((48 <=? f) && (f <=? 126))
  | Ss _ c => (c <? 128) && negb (c =? b_ESC)
  | Cstr k pl => ((k =? 80) || (k =? 88) || (k =? 94) || (k =? 95)) && forallb cstr_cp_ok pl
  end.

(* as code points (all below 128 except possibly payload characters) *)
Definition seq_bytes (q : seq) : list N :=
  match q with
  | Csi p i f => b_ESC :: 91 :: p ++ i ++ [f]
  | Osc pl st => b_ESC :: 93 :: pl ++ (if st then [b_ESC; b_BSLASH] else [b_BEL])
  | Esc2 f => [b_ESC; f]
  | Esc3 i f => [b_ESC; i; f]
  | Ss three c => [b_ESC; if three then 79 else 78; c]
  | Cstr k pl => b_ESC :: k :: pl ++ [b_ESC; b_BSLASH]
  end.

Inductive item := T (text : str) | Sq (s : seq).

Definition decorate (items : list item) : str :=
  flat_map (fun it => match it with T t => t | Sq q => seq_bytes q end) items.
Definition texts (items : list item) : str :=
  flat_map (fun it => match it with T t => t | Sq _ => [] end) items.

(* no C0 control other than \t \n \r, no DEL.  C1 code points U+0080..U+009F
   are NOT excluded: the crate sees only their UTF-8 bytes (0xC2 0x80..0x9F),
   which are ordinary text to it. *)
Definition cf_cp (c : N) : bool :=
  ((32 <=? c) && negb (c =? 127)) || (c =? 9) || (c =? 10) || (c =? 13).
Definition control_free (s : str) : bool := forallb cf_cp s.

Definition item_ok (it : item) : bool :=
  match it with
  | T t => valid t && control_free t
  | Sq q => seq_ok q
  end.
Definition items_ok (items : list item) : bool := forallb item_ok items.
