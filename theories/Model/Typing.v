(* Static kind discipline (C07): which kind each operation accepts and yields. *)
From SP Require Export Model.Spec.

Definition kind_step (k : kind) (o : op) : option kind :=
  match o with
  | Split _ (Index _) => Some KStr
  | Split _ (Range _ _ _) => Some KList
  | Join _ => Some KStr
  | Filter _ | FilterNot _ | Reverse => Some k
  | Slice _ | Sort _ | Unique | Map _ => match k with KList => Some KList | KStr => None end
  | Replace _ _ _ | Upper | Lower | Trim _ _ | Substring _ | Append _ | Prepend _ | Surround _
  | StripAnsi | Pad _ _ _ | RegexExtract _ _ => match k with KStr => Some KStr | KList => None end
  end.

(* kinds along the top-level pipeline; None = some top-level operation receives
   a kind it does not accept *)
Fixpoint infer_from (k : kind) (ops : list op) : option kind :=
  match ops with
  | [] => Some k
  | o :: ops' => match kind_step k o with Some k' => infer_from k' ops' | None => None end
  end.
Definition infer (ops : list op) : option kind := infer_from KStr ops.

(* fully well-typed: also inside map bodies (each item enters as a string) *)
Fixpoint well_typed_op (o : op) : bool :=
  match o with
  | Map body =>
      (fix go (k : kind) (b : list op) : bool :=
         match b with
         | [] => true
         | o' :: b' => well_typed_op o' && match kind_step k o' with Some k' => go k' b' | None => false end
         end) KStr body
  | _ => true
  end.
Fixpoint well_typed_from (k : kind) (ops : list op) : bool :=
  match ops with
  | [] => true
  | o :: ops' => well_typed_op o && match kind_step k o with Some k' => well_typed_from k' ops' | None => false end
  end.
Definition well_typed (ops : list op) : bool := well_typed_from KStr ops.

Section Valid.
Variable E : Env.
Fixpoint regex_valid_op (o : op) : bool :=
  match o with
  | Filter p | FilterNot p | RegexExtract p _ => re_valid E p
  | Replace pat _ flags => re_valid E (flag_prefix flags ++ pat)
  | Map body => forallb regex_valid_op body
  | _ => true
  end.
Definition regexes_valid (ops : list op) : bool := forallb regex_valid_op ops.
End Valid.
