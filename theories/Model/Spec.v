(* The documented meaning of a pipeline (docs/template-system.md), written to be
   read in minutes: no caches, no fast paths, no shortcuts, no tracing. *)
From SP Require Export Model.Ops.

Section Spec.
Variable E : Env.

Definition str_only (v : value) (f : str -> str) (sep : str) : outcome (value * str) :=
  match v with VStr s => Ok (VStr (f s), sep) | VList _ => Err end.
Definition list_only (v : value) (f : list str -> list str) (sep : str) : outcome (value * str) :=
  match v with VList l => Ok (VList (f l), sep) | VStr _ => Err end.

Definition trim_pred (chars : str) : N -> bool :=
  if forallb is_ws chars then is_ws else (fun c => mem_cp c chars).

Definition spec_replace (pat repl flags s : str) : outcome str :=
  let p := flag_prefix flags ++ pat in
  if re_valid E p then Ok (re_replace E (has_g flags) p s repl) else Err.

Definition spec_extract (p : str) (g : option N) (s : str) : outcome str :=
  if re_valid E p then
    Ok (match (match g with Some i => re_group E p s i | None => re_find E p s end) with
        | Some m => m | None => [] end)
  else Err.

Definition spec_filter (keep : bool) (p : str) (v : value) : outcome value :=
  if re_valid E p then
    Ok (match v with
        | VList l => VList (filter (fun s => Bool.eqb (re_is_match E p s) keep) l)
        | VStr s => VStr (if Bool.eqb (re_is_match E p s) keep then s else [])
        end)
  else Err.

Definition render (v : value) (sep : str) : str :=
  match v with VStr s => s | VList l => join sep l end.

Definition default_sep : str := [32%N].

Fixpoint spec_step (o : op) (v : value) (sep : str) {struct o} : outcome (value * str) :=
  match o with
  | Split sp r =>
      let parts := match v with
                   | VStr s => split s sp
                   | VList l => flat_map (fun s => split s sp) l
                   end in
      let sel := select r parts in
      Ok (match r with
          | Index _ => VStr (match sel with x :: _ => x | [] => [] end)
          | Range _ _ _ => VList sel
          end, sp)
  | Join sp => Ok (match v with VList l => VStr (join sp l) | VStr s => VStr s end, sp)
  | Slice r => list_only v (select r) sep
  | Filter p => omap (fun v' => (v', sep)) (spec_filter true p v)
  | FilterNot p => omap (fun v' => (v', sep)) (spec_filter false p v)
  | Sort Asc => list_only v sort_asc sep
  | Sort Desc => list_only v (fun l => frev (sort_asc l)) sep
  | Reverse => Ok (match v with VStr s => VStr (frev s) | VList l => VList (frev l) end, sep)
  | Unique => list_only v unique sep
  | Substring r => str_only v (select r) sep
  | Replace pat repl flags =>
      match v with
      | VStr s => omap (fun s' => (VStr s', sep)) (spec_replace pat repl flags s)
      | VList _ => Err
      end
  | Upper => str_only v (to_upper E) sep
  | Lower => str_only v (to_lower E) sep
  | Trim chars d => str_only v (trim_with (trim_pred chars) d) sep
  | Append t => str_only v (fun s => s ++ t) sep
  | Prepend t => str_only v (fun s => t ++ s) sep
  | Surround t => str_only v (fun s => t ++ s ++ t) sep
  | StripAnsi => str_only v (strip_ansi E) sep
  | Pad w c d => str_only v (pad_str w c d) sep
  | RegexExtract p g =>
      match v with
      | VStr s => omap (fun s' => (VStr s', sep)) (spec_extract p g s)
      | VList _ => Err
      end
  | Map body =>
      match v with
      | VList l =>
          omap (fun l' => (VList l', sep))
               (mapM (fun item =>
                        (fix go (ops : list op) (v : value) (sep : str) : outcome str :=
                           match ops with
                           | [] => Ok (render v sep)
                           | o' :: ops' => bind (spec_step o' v sep) (fun r => go ops' (fst r) (snd r))
                           end) body (VStr item) default_sep) l)
      | VStr _ => Err
      end
  end.

Fixpoint spec_steps (ops : list op) (v : value) (sep : str) : outcome str :=
  match ops with
  | [] => Ok (render v sep)
  | o :: ops' => bind (spec_step o v sep) (fun r => spec_steps ops' (fst r) (snd r))
  end.

(* the whole pipeline: the input enters as a string, the separator starts as " " *)
Definition spec_run (ops : list op) (x : str) : outcome str := spec_steps ops (VStr x) default_sep.

End Spec.

(* separator bookkeeping, computed from the pipeline alone *)
Definition sep_after (o : op) (sep : str) : str :=
  match o with Split sp _ => sp | Join sp => sp | _ => sep end.
Fixpoint last_sep_from (sep : str) (ops : list op) : str :=
  match ops with [] => sep | o :: ops' => last_sep_from (sep_after o sep) ops' end.
(* the separator of the most recent split or join, " " when there is none:
   computed from the pipeline text alone *)
Definition last_sep (ops : list op) : str := last_sep_from default_sep ops.

