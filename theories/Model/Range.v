(* mod.rs: RangeSpec, resolve_index, apply_range  (Impl)  and the documented
   selection rule [select] (Spec). *)
From SP Require Export Base.Outcome.
Local Open Scope Z_scope.

Inductive range := Index (i : Z) | Range (a b : option Z) (inc : bool).

Definition isize_min : Z := - 2 ^ 63.
Definition isize_max : Z := 2 ^ 63 - 1.
Definition in_isize (z : Z) : bool := (isize_min <=? z) && (z <=? isize_max).
Definition range_in_isize (r : range) : bool :=
  match r with
  | Index i => in_isize i
  | Range a b _ => match a with Some x => in_isize x | None => true end
                   && match b with Some x => in_isize x | None => true end
  end.

(* ---- Impl: as written in mod.rs ------------------------------------- *)

(* checked isize addition, as in a build with overflow checks *)
Definition checked_add (a b : Z) : outcome Z :=
  let r := a + b in if in_isize r then Ok r else Panic.

(* fn resolve_index(idx: isize, len: usize) -> usize
     let len_i = len as isize;
     let resolved = if idx < 0 { len_i + idx } else { idx };
     resolved.clamp(0, len_i.max(0)) as usize *)
Definition resolve_index (idx : Z) (len : Z) : outcome Z :=
  bind (if idx <? 0 then checked_add len idx else Ok idx)
       (fun resolved => Ok (Z.max 0 (Z.min resolved (Z.max len 0)))).

Definition slice_range {T} (items : list T) (s e : Z) : outcome (list T) :=
  (* items[s..e]: panics unless s <= e <= len *)
  if (s <=? e) && (e <=? Z.of_nat (length items))
  then Ok (firstn (Z.to_nat (e - s)) (skipn (Z.to_nat s) items))
  else Panic.

Definition apply_range {T} (items : list T) (r : range) : outcome (list T) :=
  let len := Z.of_nat (length items) in
  if len =? 0 then Ok [] else
  match r with
  | Index idx =>
      bind (resolve_index idx len) (fun i0 =>
      let i := Z.min i0 (len - 1) in
      match nth_error items (Z.to_nat i) with
      | Some x => Ok [x]
      | None => Ok []
      end)
  | Range a b inc =>
      bind (match a with None => Ok 0 | Some s => resolve_index s len end) (fun s_idx =>
      if len <=? s_idx then Ok [] else
      bind (match b with None => Ok len | Some e => resolve_index e len end) (fun e0 =>
      let e1 := if inc then e0 + 1 else e0 in      (* saturating_add(1): e0 <= len, cannot saturate *)
      let e_idx := Z.min e1 len in
      if e_idx <=? s_idx then Ok [] else slice_range items s_idx e_idx))
  end.

(* The same control flow over mathematical integers (what the machine code
   computes whenever nothing overflows): this is what the interpreter model
   uses.  [apply_range_checked_is_m] (Proofs/RangeP.v) shows the checked version
   above returns exactly this, without panicking, for every bound in isize and
   every length Rust can hold. *)
Definition resolve_index_m (idx len : Z) : Z :=
  let resolved := if idx <? 0 then len + idx else idx in
  Z.max 0 (Z.min resolved (Z.max len 0)).

Definition apply_range_m {T} (items : list T) (r : range) : list T :=
  let len := Z.of_nat (length items) in
  if len =? 0 then [] else
  match r with
  | Index idx =>
      let i := Z.min (resolve_index_m idx len) (len - 1) in
      match nth_error items (Z.to_nat i) with
      | Some x => [x]
      | None => []
      end
  | Range a b inc =>
      let s_idx := match a with None => 0 | Some s => resolve_index_m s len end in
      if len <=? s_idx then [] else
      let e0 := match b with None => len | Some e => resolve_index_m e len end in
      let e1 := if inc then e0 + 1 else e0 in
      let e_idx := Z.min e1 len in
      if e_idx <=? s_idx then [] else firstn (Z.to_nat (e_idx - s_idx)) (skipn (Z.to_nat s_idx) items)
  end.

(* ---- Spec: the documented rule --------------------------------------- *)

(* a bound counted from the end when negative, clamped to [0, len] *)
Definition norm (i len : Z) : Z :=
  let j := if i <? 0 then len + i else i in Z.max 0 (Z.min j len).

(* clamped start (inclusive) and end (exclusive) of a range over [len] items *)
Definition range_start (a : option Z) (len : Z) : Z :=
  match a with Some x => norm x len | None => 0 end.
Definition range_end (b : option Z) (inc : bool) (len : Z) : Z :=
  Z.min len ((match b with Some x => norm x len | None => len end) + (if inc then 1 else 0)).

Definition select {T} (r : range) (l : list T) : list T :=
  let len := Z.of_nat (length l) in
  match l with
  | [] => []
  | _ =>
    match r with
    | Index i =>
        let p := Z.min (norm i len) (len - 1) in
        firstn 1 (skipn (Z.to_nat p) l)
    | Range a b inc =>
        let s := range_start a len in
        let e := range_end b inc len in
        if s <? e then firstn (Z.to_nat (e - s)) (skipn (Z.to_nat s) l) else []
    end
  end.
