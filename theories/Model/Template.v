(* template.rs: the MultiTemplate object -- sections, format (both copies of the
   section loop), the per-call memo, the single-split fast path,
   format_with_inputs and the accessors.  Parsing is in Scanner.v / Convert.v. *)
From SP Require Export Model.Impl Model.Spec.

Inductive section := Lit (s : str) | Sec (ops : list op).
Record template := { t_raw : str; t_sections : list section; t_debug : bool }.

(* ---- structural equality of operations: the memo key --------------------- *)
(* CacheKey.ops_signature is format!("{ops:?}"); the Debug rendering is assumed
   injective on operation lists, so the key compares operations structurally. *)
Definition optz_eqb (a b : option Z) : bool :=
  match a, b with Some x, Some y => Z.eqb x y | None, None => true | _, _ => false end.
Definition range_eqb (a b : range) : bool :=
  match a, b with
  | Index i, Index j => Z.eqb i j
  | Range a1 b1 i1, Range a2 b2 i2 => optz_eqb a1 a2 && optz_eqb b1 b2 && Bool.eqb i1 i2
  | _, _ => false
  end.
Definition tdir_eqb (a b : tdir) : bool :=
  match a, b with TBoth, TBoth | TLeft, TLeft | TRight, TRight => true | _, _ => false end.
Definition sdir_eqb (a b : sdir) : bool :=
  match a, b with Asc, Asc | Desc, Desc => true | _, _ => false end.
Definition pdir_eqb (a b : pdir) : bool :=
  match a, b with PLeft, PLeft | PRight, PRight | PBoth, PBoth => true | _, _ => false end.
Definition optn_eqb (a b : option N) : bool :=
  match a, b with Some x, Some y => N.eqb x y | None, None => true | _, _ => false end.

Fixpoint op_eqb (a b : op) {struct a} : bool :=
  match a, b with
  | Split s1 r1, Split s2 r2 => str_eqb s1 s2 && range_eqb r1 r2
  | Join s1, Join s2 => str_eqb s1 s2
  | Replace a1 b1 c1, Replace a2 b2 c2 => str_eqb a1 a2 && str_eqb b1 b2 && str_eqb c1 c2
  | Upper, Upper | Lower, Lower | StripAnsi, StripAnsi | Reverse, Reverse | Unique, Unique => true
  | Trim c1 d1, Trim c2 d2 => str_eqb c1 c2 && tdir_eqb d1 d2
  | Substring r1, Substring r2 => range_eqb r1 r2
  | Append s1, Append s2 => str_eqb s1 s2
  | Prepend s1, Prepend s2 => str_eqb s1 s2
  | Surround s1, Surround s2 => str_eqb s1 s2
  | Filter p1, Filter p2 => str_eqb p1 p2
  | FilterNot p1, FilterNot p2 => str_eqb p1 p2
  | Slice r1, Slice r2 => range_eqb r1 r2
  | Map b1, Map b2 =>
      (fix go (l1 l2 : list op) {struct l1} : bool :=
         match l1, l2 with
         | [], [] => true
         | x :: l1', y :: l2' => op_eqb x y && go l1' l2'
         | _, _ => false
         end) b1 b2
  | Sort d1, Sort d2 => sdir_eqb d1 d2
  | Pad w1 c1 d1, Pad w2 c2 d2 => N.eqb w1 w2 && N.eqb c1 c2 && pdir_eqb d1 d2
  | RegexExtract p1 g1, RegexExtract p2 g2 => str_eqb p1 p2 && optn_eqb g1 g2
  | _, _ => false
  end.
Fixpoint ops_eqb (l1 l2 : list op) : bool :=
  match l1, l2 with
  | [], [] => true
  | x :: l1', y :: l2' => op_eqb x y && ops_eqb l1' l2'
  | _, _ => false
  end.

(* TemplateCache.operations: (input, ops) -> output, for one call *)
Definition memo := list ((str * list op) * str).
Fixpoint memo_lookup (m : memo) (i : str) (ops : list op) : option str :=
  match m with
  | [] => None
  | ((i', ops'), out) :: m' => if str_eqb i' i && ops_eqb ops' ops then Some out else memo_lookup m' i ops
  end.

Section Impl.
Variable E : Env.

(* fn fast_single_split(input, sep, range) -> String *)
Definition fast_single_split (input sep : str) (r : range) : prog str :=
  pbind (get_cached_split input sep) (fun parts =>
    let selected := apply_range_m parts r in
    Ret (match selected with
         | [] => []
         | [x] => x
         | _ => join sep selected
         end)).

(* fn apply_template_section(input, ops, input_hash, cache, dbg) *)
Definition apply_section (dbg : bool) (input : str) (ops : list op) (m : memo)
  : prog (outcome str * memo) :=
  match ops with
  | [Split sep r] => pbind (fast_single_split input sep r) (fun s => Ret (Ok s, m))
  | _ =>
      match memo_lookup m input ops with
      | Some out => Ret (Ok out, m)
      | None =>
          pbind (impl_run E dbg ops input) (fun r =>
            match r with
            | Ok out => Ret (Ok out, ((input, ops), out) :: m)
            | Err => Ret (Err, m)
            | Panic => Ret (Panic, m)
            end)
      end
  end.

(* the literal preview computed by the debug copy of the loop *)
Definition literal_preview (text : str) : outcome unit :=
  if (forallb is_ws text && N.leb (utf8_len text) debug_ws_limit)%bool then Ok tt
  else if N.leb (utf8_len text) debug_literal_limit then Ok tt
  else if debug_literal_by_chars then Ok tt
  else omap (fun _ => tt) (byte_prefix text debug_literal_take).

(* format(): the non-debug copy of the section loop *)
Fixpoint format_loop_plain (dbg : bool) (input : str) (secs : list section) (acc : str) (m : memo)
  : prog (outcome str) :=
  match secs with
  | [] => Ret (Ok acc)
  | Lit l :: rest => format_loop_plain dbg input rest (acc ++ l) m
  | Sec ops :: rest =>
      pbind (apply_section dbg input ops m) (fun rm =>
        match fst rm with
        | Ok out => format_loop_plain dbg input rest (acc ++ out) (snd rm)
        | Err => Ret Err
        | Panic => Ret Panic
        end)
  end.

(* format(): the debug copy (tracer calls around the same work) *)
Fixpoint format_loop_debug (input : str) (secs : list section) (acc : str) (m : memo)
  : prog (outcome str) :=
  match secs with
  | [] => Ret (Ok acc)
  | Lit l :: rest =>
      match literal_preview l with
      | Ok _ => format_loop_debug input rest (acc ++ l) m
      | Err => Ret Err
      | Panic => Ret Panic
      end
  | Sec ops :: rest =>
      pbind (apply_section true input ops m) (fun rm =>
        match fst rm with
        | Ok out => format_loop_debug input rest (acc ++ out) (snd rm)
        | Err => Ret Err
        | Panic => Ret Panic
        end)
  end.

(* pub fn format(&self, input) -> Result<String, String> *)
Definition impl_format (t : template) (x : str) : prog (outcome str) :=
  if t_debug t
  then format_loop_debug x (t_sections t) [] []
  else format_loop_plain false x (t_sections t) [] [].

(* pub fn format_with_inputs(&self, inputs, separators) *)
Fixpoint fwi_inputs (dbg : bool) (ops : list op) (inputs : list str) (m : memo)
  : prog (outcome (list str) * memo) :=
  match inputs with
  | [] => Ret (Ok [], m)
  | i :: rest =>
      pbind (apply_section dbg i ops m) (fun rm =>
        match fst rm with
        | Ok out =>
            pbind (fwi_inputs dbg ops rest (snd rm)) (fun rm' =>
              Ret (omap (cons out) (fst rm'), snd rm'))
        | Err => Ret (Err, snd rm)
        | Panic => Ret (Panic, snd rm)
        end)
  end.

Fixpoint fwi_loop (dbg : bool) (secs : list section) (inputs : list (list str)) (seps : list str)
         (idx : nat) (acc : str) (m : memo) : prog (outcome str) :=
  match secs with
  | [] => Ret (Ok acc)
  | Lit l :: rest => fwi_loop dbg rest inputs seps idx (acc ++ l) m
  | Sec ops :: rest =>
      let section_inputs := nth idx inputs [] in          (* adjusted_inputs: [] when missing *)
      let separator := nth idx seps [32%N] in             (* adjusted_separators: " " when missing *)
      match section_inputs with
      | [] => fwi_loop dbg rest inputs seps (S idx) acc m
      | [i] =>
          pbind (apply_section dbg i ops m) (fun rm =>
            match fst rm with
            | Ok out => fwi_loop dbg rest inputs seps (S idx) (acc ++ out) (snd rm)
            | Err => Ret Err
            | Panic => Ret Panic
            end)
      | _ =>
          pbind (fwi_inputs dbg ops section_inputs m) (fun rm =>
            match fst rm with
            | Ok outs => fwi_loop dbg rest inputs seps (S idx) (acc ++ join separator outs) (snd rm)
            | Err => Ret Err
            | Panic => Ret Panic
            end)
      end
  end.

Definition impl_format_with_inputs (t : template) (inputs : list (list str)) (seps : list str)
  : prog (outcome str) :=
  fwi_loop (t_debug t) (t_sections t) inputs seps 0 [] [].

End Impl.

(* ---- Spec ---------------------------------------------------------------- *)
Section SpecT.
Variable E : Env.

Definition seg_out (x : str) (s : section) : outcome str :=
  match s with Lit l => Ok l | Sec ops => spec_run E ops x end.

(* literals verbatim and in order, every section replaced by what it alone
   produces on the same input; the first failing section fails the call *)
Definition spec_format (secs : list section) (x : str) : outcome str :=
  omap (@concat N) (mapM (seg_out x) secs).

(* format_with_inputs: section k gets nth k inputs, joined with nth k seps *)
Fixpoint spec_fwi (secs : list section) (inputs : list (list str)) (seps : list str) (idx : nat)
  : outcome (list str) :=
  match secs with
  | [] => Ok []
  | Lit l :: rest => omap (cons l) (spec_fwi rest inputs seps idx)
  | Sec ops :: rest =>
      bind (mapM (spec_run E ops) (nth idx inputs [])) (fun outs =>
        omap (cons (join (nth idx seps [32%N]) outs)) (spec_fwi rest inputs seps (S idx)))
  end.
Definition spec_format_with_inputs (secs : list section) (inputs : list (list str)) (seps : list str)
  : outcome str := omap (@concat N) (spec_fwi secs inputs seps 0).

End SpecT.

(* ---- accessors ------------------------------------------------------------ *)
Definition template_string (t : template) : str := t_raw t.
Definition section_count (t : template) : nat := length (t_sections t).
Definition is_sec (s : section) : bool := match s with Sec _ => true | Lit _ => false end.
Definition template_section_count (t : template) : nat := length (filter is_sec (t_sections t)).
Definition is_debug (t : template) : bool := t_debug t.
Definition with_debug (t : template) (d : bool) : template :=
  {| t_raw := t_raw t; t_sections := t_sections t; t_debug := d |}.

Record section_info := {
  si_is_template : bool;
  si_overall : nat;
  si_template_pos : option nat;
  si_content : option str;
  si_ops : option (list op);
}.
Fixpoint section_info_from (secs : list section) (overall tpos : nat) : list section_info :=
  match secs with
  | [] => []
  | Lit l :: rest =>
      {| si_is_template := false; si_overall := overall; si_template_pos := None;
         si_content := Some l; si_ops := None |} :: section_info_from rest (S overall) tpos
  | Sec ops :: rest =>
      {| si_is_template := true; si_overall := overall; si_template_pos := Some tpos;
         si_content := None; si_ops := Some ops |} :: section_info_from rest (S overall) (S tpos)
  end.
Definition get_section_info (t : template) : list section_info := section_info_from (t_sections t) 0 0.

Fixpoint template_sections_from (secs : list section) (tpos : nat) : list (nat * list op) :=
  match secs with
  | [] => []
  | Lit _ :: rest => template_sections_from rest tpos
  | Sec ops :: rest => (tpos, ops) :: template_sections_from rest (S tpos)
  end.
Definition get_template_sections (t : template) : list (nat * list op) := template_sections_from (t_sections t) 0.
