(* The two brace scanners -- template.rs try_single_block and parser.rs
   parse_multi_template -- character by character as in the code (after fix
   9558179 both honour backslash escapes inside a section), and the template
   constructors parse / parse_with_debug. *)
From SP Require Export Model.Convert Model.Template.
Local Open Scope N_scope.

Definition c_lbrace : N := 123.
Definition c_rbrace : N := 125.
Definition c_bslash : N := 92.
Definition c_dollar : N := 36.

(* ---- fn try_single_block(template) -> Result<Option<Self>, String> ---------- *)
(* the loop over template[1..len-1]: Some (depth, escaped) at the end, None when
   a closing brace is met at depth 0 *)
Fixpoint single_scan (s : str) (depth : nat) (escaped : bool) : option (nat * bool) :=
  match s with
  | [] => Some (depth, escaped)
  | ch :: s' =>
      if escaped then single_scan s' depth false
      else if N.eqb ch c_bslash then single_scan s' depth true
      else if N.eqb ch c_lbrace then single_scan s' (S depth) false
      else if N.eqb ch c_rbrace then
        match depth with O => None | S d => single_scan s' d false end
      else single_scan s' depth false
  end.

Definition is_single_block (s : str) : bool :=
  match s with
  | first :: rest =>
      match frev rest with
      | last :: inner_rev =>
          (N.eqb first c_lbrace && N.eqb last c_rbrace)%bool &&
          match single_scan (frev inner_rev) O false with
          | Some (O, false) => true
          | _ => false
          end
      | [] => false          (* one character: cannot both start with { and end with } *)
      end
  | [] => false
  end.

Definition try_single_block (s : str) : outcome (option template) :=
  if is_single_block s then
    bind (parse_template s) (fun od =>
      Ok (Some {| t_raw := s; t_sections := [Sec (fst od)]; t_debug := snd od |}))
  else Ok None.

(* ---- pub fn parse_multi_template(template) ----------------------------------- *)
Inductive smode :=
| MLit
| MShell (count : nat)
| MSec (content_rev : str) (count : nat) (escaped : bool).

Record sstate := {
  st_secs_rev : list section;
  st_lit_rev : str;
  st_mode : smode;
  st_dbg : bool;
  st_fail : option bool;       (* Some false = Err returned, Some true = panicked *)
}.

Definition flush_literal (st : sstate) : list section :=
  match st_lit_rev st with
  | [] => st_secs_rev st
  | l => Lit (frev l) :: st_secs_rev st
  end.

Definition scan_step (st : sstate) (ch : N) : sstate :=
  match st_fail st with
  | Some _ => st
  | None =>
    match st_mode st with
    | MLit =>
        if N.eqb ch c_lbrace then
          match st_lit_rev st with
          | d :: _ =>
              if N.eqb d c_dollar
              then (* ${ : shell variable, kept as literal text *)
                   {| st_secs_rev := st_secs_rev st; st_lit_rev := ch :: st_lit_rev st;
                      st_mode := MShell 1; st_dbg := st_dbg st; st_fail := None |}
              else {| st_secs_rev := flush_literal st; st_lit_rev := [];
                      st_mode := MSec [] 1 false; st_dbg := st_dbg st; st_fail := None |}
          | [] => {| st_secs_rev := flush_literal st; st_lit_rev := [];
                     st_mode := MSec [] 1 false; st_dbg := st_dbg st; st_fail := None |}
          end
        else {| st_secs_rev := st_secs_rev st; st_lit_rev := ch :: st_lit_rev st;
                st_mode := MLit; st_dbg := st_dbg st; st_fail := None |}
    | MShell n =>
        let m := if N.eqb ch c_lbrace then MShell (S n)
                 else if N.eqb ch c_rbrace then (match n with S (S k) => MShell (S k) | _ => MLit end)
                 else MShell n in
        {| st_secs_rev := st_secs_rev st; st_lit_rev := ch :: st_lit_rev st;
           st_mode := m; st_dbg := st_dbg st; st_fail := None |}
    | MSec c n esc =>
        let keep m := {| st_secs_rev := st_secs_rev st; st_lit_rev := st_lit_rev st;
                         st_mode := m; st_dbg := st_dbg st; st_fail := None |} in
        if esc then keep (MSec (ch :: c) n false)
        else if N.eqb ch c_bslash then keep (MSec (ch :: c) n true)
        else if N.eqb ch c_lbrace then keep (MSec (ch :: c) (S n) false)
        else if N.eqb ch c_rbrace then
          match n with
          | S (S k) => keep (MSec (ch :: c) (S k) false)
          | _ =>
              (* matching close: parse "{content}" *)
              match parse_template (c_lbrace :: frev c ++ [c_rbrace]) with
              | Ok (ops, d) =>
                  {| st_secs_rev := Sec ops :: st_secs_rev st; st_lit_rev := [];
                     st_mode := MLit; st_dbg := (st_dbg st || d)%bool; st_fail := None |}
              | Err => {| st_secs_rev := st_secs_rev st; st_lit_rev := st_lit_rev st;
                          st_mode := MLit; st_dbg := st_dbg st; st_fail := Some false |}
              | Panic => {| st_secs_rev := st_secs_rev st; st_lit_rev := st_lit_rev st;
                            st_mode := MLit; st_dbg := st_dbg st; st_fail := Some true |}
              end
          end
        else keep (MSec (ch :: c) n false)
    end
  end.

Definition scan_init : sstate :=
  {| st_secs_rev := []; st_lit_rev := []; st_mode := MLit; st_dbg := false; st_fail := None |}.

Definition parse_multi_template (s : str) : outcome (list section * bool) :=
  let st := fold_left scan_step s scan_init in
  match st_fail st with
  | Some false => Err
  | Some true => Panic
  | None =>
      match st_mode st with
      | MLit => Ok (frev (flush_literal st), st_dbg st)
      | MShell _ => Err                  (* "Unclosed shell variable brace" *)
      | MSec _ _ _ => Err                (* "Unclosed template brace" *)
      end
  end.

(* ---- constructors -------------------------------------------------------------- *)
(* pub fn parse(template): note the multi-template branch sets debug = false *)
Definition template_parse (s : str) : outcome template :=
  bind (try_single_block s) (fun single =>
    match single with
    | Some t => Ok t
    | None =>
        bind (parse_multi_template s) (fun sd =>
          Ok {| t_raw := s; t_sections := fst sd; t_debug := false |})
    end).

(* pub fn parse_with_debug(template, debug: Option<bool>) *)
Definition template_parse_with_debug (s : str) (debug : option bool) : outcome template :=
  bind (try_single_block s) (fun single =>
    match single with
    | Some t => Ok (match debug with Some d => with_debug t d | None => t end)
    | None =>
        bind (parse_multi_template s) (fun sd =>
          Ok {| t_raw := s; t_sections := fst sd;
                t_debug := match debug with Some d => d | None => snd sd end |})
    end).

(* used by Examples: the argument of a single {append:...} block *)
Definition x_parse_ok_append (s : str) : option str :=
  match template_parse s with
  | Ok t => match t_sections t with [Sec [Append a]] => Some a | _ => None end
  | _ => None
  end.
