From Coq Require Import List NArith Bool Lia Arith.
Import ListNotations.
Definition str := list N.

Fixpoint is_prefix (p s: str) : bool :=
  match p, s with
  | [], _ => true
  | c :: p', d :: s' => N.eqb c d && is_prefix p' s'
  | _ :: _, [] => false
  end.

Lemma is_prefix_spec p s : is_prefix p s = true <-> exists t, s = p ++ t.
Proof.
  revert s; induction p as [|c p IH]; intros s; simpl.
  - split; [intros _; exists s; reflexivity | reflexivity].
  - destruct s as [|d s]; [split; [discriminate | intros [t Ht]; discriminate]|].
    rewrite andb_true_iff, N.eqb_eq, IH. split.
    + intros [-> [t ->]]. exists t; reflexivity.
    + intros [t Ht]. injection Ht as -> ->. split; [reflexivity | exists t; reflexivity].
Qed.

(* cur is the current piece, reversed; skip counts separator characters still to drop *)
Fixpoint split_go (sep s: str) (skip: nat) (cur: str) : list str :=
  match s with
  | [] => [rev cur]
  | c :: s' =>
      match skip with
      | S k => split_go sep s' k cur
      | O => if is_prefix sep s
             then rev cur :: split_go sep s' (length sep - 1) []
             else split_go sep s' 0 (c :: cur)
      end
  end.

Definition split (s sep: str) : list str :=
  match sep with
  | [] => [] :: map (fun c => [c]) s ++ [[]]
  | _ => split_go sep s 0 []
  end.

Fixpoint join (sep: str) (l: list str) : str :=
  match l with
  | [] => []
  | [x] => x
  | x :: rest => x ++ sep ++ join sep rest
  end.

Lemma split_go_nonempty sep s k cur : split_go sep s k cur <> [].
Proof.
  revert k cur; induction s as [|c s IH]; intros k cur; simpl; [discriminate|].
  destruct k; [destruct (is_prefix sep (c :: s)); [discriminate | apply IH] | apply IH].
Qed.

Lemma join_cons sep x rest : rest <> [] -> join sep (x :: rest) = x ++ sep ++ join sep rest.
Proof. destruct rest; [congruence | reflexivity]. Qed.

Lemma join_split_go sep : sep <> [] ->
  forall s k cur, k <= length s ->
    join sep (split_go sep s k cur) = rev cur ++ skipn k s.
Proof.
  intros Hsep s. induction s as [|c s IH]; intros k cur Hk; simpl in *.
  - assert (k = 0) by lia; subst; simpl. now rewrite app_nil_r.
  - destruct k as [|k].
    + destruct (is_prefix sep (c :: s)) eqn:Hp.
      * apply is_prefix_spec in Hp as [t Ht].
        destruct sep as [|d sep']; [congruence|]. simpl in Ht. injection Ht as <- ->.
        rewrite join_cons by apply split_go_nonempty.
        rewrite IH by (simpl; rewrite app_length; lia).
        simpl. rewrite Nat.sub_0_r.
        rewrite skipn_app, skipn_all, Nat.sub_diag. simpl. reflexivity.
      * rewrite IH by lia. simpl. rewrite <- app_assoc. reflexivity.
    + rewrite IH by lia. reflexivity.
Qed.

Lemma join_singletons (s: str) : join [] (map (fun c => [c]) s ++ [[]]) = s.
Proof.
  induction s as [|c s IH]; [reflexivity|].
  simpl map. simpl app.
  rewrite join_cons by (destruct s; discriminate). simpl. now rewrite IH.
Qed.

Theorem join_split_id (s sep: str) : join sep (split s sep) = s.
Proof.
  unfold split. destruct sep as [|d sep'] eqn:E.
  - rewrite join_cons by (destruct s; discriminate). simpl. apply join_singletons.
  - rewrite join_split_go by (congruence || lia). reflexivity.
Qed.
Print Assumptions join_split_id.
Eval vm_compute in split [97;97;97;97;97]%N [97;97]%N.
