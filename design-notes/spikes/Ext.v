Require Import Peg Grammar. From Coq Require Import List NArith. Import ListNotations.
Definition accepts (s: str) : bool := match run r_template false s with Some (_, _, rest) => match rest with [] => true | _ => false end | None => false end.
Require Extraction. Require ExtrOcamlBasic.
Extraction "pegx.ml" accepts.
