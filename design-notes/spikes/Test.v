Require Import Peg Grammar. From Coq Require Import List NArith String Ascii. Import ListNotations.
Fixpoint cps (s: string) : list N := match s with EmptyString => [] | String a r => N_of_ascii a :: cps r end.
Fixpoint show (t: tree rule) : list (option rule * nat) :=
  match t with Node id txt kids => (id, List.length txt) :: flat_map show kids end.
Definition p (s: string) := match run r_template false (cps s) with
  | Some (t, kids, rest) => Some (flat_map show kids, List.length rest) | None => None end.
Eval vm_compute in p "{split:,:..|map:{upper}|join:-}".
Eval vm_compute in p "{filter:[{]|upper}}".
Eval vm_compute in p "{split:,:}".
Eval vm_compute in p "{trim:left}".
Eval vm_compute in p "{1..=3}".
Eval vm_compute in p "{split:,:..|map:{split:;}}".
Eval vm_compute in p "{append:a|upper}".
Eval vm_compute in p "{filter:a:1}".
