let rec pos_of_int i = if i = 1 then Pegx.XH else if i land 1 = 0 then Pegx.XO (pos_of_int (i lsr 1)) else Pegx.XI (pos_of_int (i lsr 1))
let n_of_int i = if i = 0 then Pegx.N0 else Pegx.Npos (pos_of_int i)
let enc s = List.init (String.length s) (fun i -> n_of_int (Char.code s.[i]))
let () =
  let toks = [| "{"; "}"; "|"; ":"; "\\"; "!"; ".."; "="; "-"; "0"; "1"; "9"; "a"; "split"; "upper"; "join"; "map"; "trim"; "left"; "filter"; "sort"; "desc"; "pad"; "replace"; "s/"; "/"; ","; " "; "+"; "#"|] in
  let n = Array.length toks in
  let acc = ref 0 and tot = ref 0 in
  let t0 = Sys.time () in
  for a = 0 to n-1 do for b = 0 to n-1 do for c = 0 to n-1 do
    let s = "{" ^ toks.(a) ^ toks.(b) ^ toks.(c) ^ "}" in
    incr tot; if Pegx.accepts (enc s) then incr acc
  done done done;
  let s = "{split:,:..|map:{trim|upper|append:xyz}|filter:^[a-z]+$|sort:desc|join:-}" in
  for _ = 1 to 10000 do ignore (Pegx.accepts (enc s)) done;
  Printf.printf "%d strings, %d accepted, %.2fs (incl 10k long)\n" !tot !acc (Sys.time () -. t0)
