Require Import Peg Grammar.
From Coq Require Import List NArith Bool Lia Arith.
Import ListNotations.

Section ClassStar.
Variable P : N -> bool.
Definition class_match (inp: str) : res rule :=
  match inp with c :: r => if P c then Some ([c], [], r) else None | [] => None end.
Fixpoint span (inp: str) : str * str :=
  match inp with
  | c :: r => if P c then let (a, b) := span r in (c :: a, b) else ([], inp)
  | [] => ([], [])
  end.
Lemma star_class fuel inp : length inp < fuel ->
  star_loop class_match fuel inp = Some (fst (span inp), [], snd (span inp)).
Proof.
  revert inp; induction fuel as [|fuel IH]; intros inp Hf; [lia|].
  destruct inp as [|c r]; simpl; [reflexivity|].
  destruct (P c) eqn:Hc; [|reflexivity].
  assert (Hlt: (length r <? S (length r)) = true) by (apply Nat.ltb_lt; lia).
  rewrite Hlt, IH by (simpl in Hf; lia).
  destruct (span r) as [a b]; reflexivity.
Qed.
End ClassStar.

Definition is_digit (c: N) : bool := (48 <=? c)%N && (c <=? 57)%N.

Lemma run_range_is_class lo hi atomic inp :
  run (PRange lo hi) atomic inp = class_match (fun c => (lo <=? c)%N && (c <=? hi)%N) inp.
Proof. reflexivity. Qed.

(* the direct scanner for `number = @{ "-"? ~ ASCII_DIGIT+ }` *)
Definition scan_number (inp: str) : option (str * str) :=
  let (sign, r0) := match inp with 45%N :: r => ([45%N], r) | _ => ([], inp) end in
  match r0 with
  | c :: r1 => if is_digit c then let (ds, rest) := span is_digit r1 in Some (sign ++ c :: ds, rest) else None
  | [] => None
  end.

Lemma star_loop_ext (f g: str -> res rule) fuel inp :
  (forall i, f i = g i) -> star_loop f fuel inp = star_loop g fuel inp.
Proof.
  intros H; revert inp; induction fuel as [|n IH]; intros inp; simpl; [reflexivity|].
  rewrite H. destruct (g inp) as [[[t k] r]|]; [|reflexivity].
  destruct (length r <? length inp); [rewrite IH|]; reflexivity.
Qed.

Arguments star_loop : simpl never.
Lemma run_seq (a b: peg rule) at_ i : run (PSeq a b) at_ i = seq_res rule (run a at_ i) (run b at_). Proof. reflexivity. Qed.
Lemma run_opt (a: peg rule) at_ i : run (POpt a) at_ i = match run a at_ i with Some x => Some x | None => Some ([], [], i) end. Proof. reflexivity. Qed.
Lemma run_plus (a: peg rule) at_ i : run (PPlus a) at_ i = seq_res rule (run a at_ i) (fun r => star_loop (run a at_) (S (length r)) r). Proof. reflexivity. Qed.
Lemma run_str (s: str) at_ i : run (rule:=rule) (PStr s) at_ i = match strip_prefix s i with Some r => Some (s, [], r) | None => None end. Proof. reflexivity. Qed.
Lemma run_atomic id (b: peg rule) at_ i : run (PRule id Atomic b) at_ i =
  match run b true i with Some (t, _, r) => Some (t, (if at_ then [] else [Node (Some id) t []]), r) | None => None end.
Proof. reflexivity. Qed.

Lemma digits_plus i :
  run (rule:=rule) (PPlus (PRange 48 57)) true i =
  match i with
  | c :: r1 => if is_digit c then let (ds, rest) := span is_digit r1 in Some (c :: ds, [], rest) else None
  | [] => None
  end.
Proof.
  rewrite run_plus, run_range_is_class. destruct i as [|c r1]; [reflexivity|].
  unfold class_match. fold (is_digit c). destruct (is_digit c); [|reflexivity].
  unfold seq_res.
  rewrite (star_loop_ext _ (class_match is_digit)) by (intros; apply run_range_is_class).
  rewrite star_class by lia. destruct (span is_digit r1); reflexivity.
Qed.

Lemma run_number atomic inp :
  run r_number atomic inp =
  match scan_number inp with
  | Some (t, r) => Some (t, (if atomic then [] else [Node (Some R_number) t []]), r)
  | None => None
  end.
Proof.
  unfold r_number. rewrite run_atomic, run_seq, run_opt, run_str.
  unfold scan_number.
  assert (Hsign: match strip_prefix [45%N] inp with Some r => Some ([45%N], @nil (tree rule), r) | None => Some ([], [], inp) end
                 = let (sign, r0) := match inp with 45%N :: r => ([45%N], r) | _ => ([], inp) end in Some (sign, [], r0)).
  { destruct inp as [|c r]; [reflexivity|]. cbn [strip_prefix].
    destruct (N.eqb_spec 45 c) as [<-|Hne]; [reflexivity|].
    destruct c as [|p]; [reflexivity|]. repeat (destruct p as [p|p|]; try reflexivity). congruence. }
  match goal with |- context [seq_res _ ?x _] => replace x with
    (let (sign, r0) := match inp with 45%N :: r => ([45%N], r) | _ => ([], inp) end in Some (sign, @nil (tree rule), r0)) end.
  2:{ rewrite <- Hsign. destruct (strip_prefix [45%N] inp); reflexivity. }
  destruct (match inp with 45%N :: r => ([45%N], r) | _ => ([], inp) end) as [sign r0].
  unfold seq_res. rewrite digits_plus.
  destruct r0 as [|c r1]; [reflexivity|].
  destruct (is_digit c); [|reflexivity].
  destruct (span is_digit r1) as [ds rest]. Show. reflexivity.
Qed.
Print Assumptions run_number.
