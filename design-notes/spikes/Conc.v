From Coq Require Import List Bool Arith Lia.
Import ListNotations.
Section Memo.
Variables K V A : Type.
Variable keq : K -> K -> bool.
Hypothesis keq_spec : forall a b, keq a b = true <-> a = b.
Variable f : K -> V.            (* the function the cache memoises *)

Inductive prog :=
| Ret (a: A)
| Get (k: K) (cont: option V -> prog)
| Put (k: K) (v: V) (cont: prog).

Definition cache := list (K * V).
Fixpoint lookup (c: cache) (k: K) : option V :=
  match c with [] => None | (k', v) :: c' => if keq k' k then Some v else lookup c' k end.
Definition Inv (c: cache) : Prop := forall k v, lookup c k = Some v -> v = f k.

Fixpoint pure (p: prog) : A :=
  match p with Ret a => a | Get _ cont => pure (cont None) | Put _ _ cont => pure cont end.

Fixpoint wf (p: prog) : Prop :=
  match p with
  | Ret _ => True
  | Put k v cont => v = f k /\ wf cont
  | Get k cont => wf (cont None) /\ wf (cont (Some (f k))) /\ pure (cont (Some (f k))) = pure (cont None)
  end.

(* one atomic step of one thread against the shared cache *)
Definition step (p: prog) (c: cache) : prog * cache :=
  match p with
  | Ret a => (Ret a, c)
  | Get k cont => (cont (lookup c k), c)
  | Put k v cont => (cont, (k, v) :: c)
  end.

Lemma step_ok p c : Inv c -> wf p ->
  let (p', c') := step p c in Inv c' /\ wf p' /\ pure p' = pure p.
Proof.
  intros HI Hwf. destruct p as [a|k cont|k v cont]; simpl in *.
  - auto.
  - destruct Hwf as (Hn & Hs & He). destruct (lookup c k) as [v|] eqn:L.
    + apply HI in L. subst v. auto.
    + auto.
  - destruct Hwf as (-> & Hc). split; [|auto].
    intros k' v' L. simpl in L. destruct (keq k k') eqn:E.
    + apply keq_spec in E. subst. congruence.
    + apply HI; assumption.
Qed.

(* threads = list of programs; a schedule is any list of thread indexes *)
Fixpoint set_nth {X} (l: list X) (i: nat) (x: X) : list X :=
  match l, i with [], _ => [] | _ :: t, O => x :: t | h :: t, S j => h :: set_nth t j x end.
Definition sched_step (st: list prog * cache) (i: nat) : list prog * cache :=
  let (pool, c) := st in
  match nth_error pool i with
  | Some p => let (p', c') := step p c in (set_nth pool i p', c')
  | None => st
  end.
Definition run_sched (sched: list nat) (st: list prog * cache) := fold_left sched_step sched st.

Definition Good (init: list prog) (st: list prog * cache) : Prop :=
  Inv (snd st) /\ length (fst st) = length init /\
  forall i p, nth_error (fst st) i = Some p -> wf p /\ exists p0, nth_error init i = Some p0 /\ pure p = pure p0.

Lemma nth_error_set_nth {X} (l: list X) i j x :
  nth_error (set_nth l i x) j = if Nat.eqb i j then (match nth_error l i with Some _ => Some x | None => None end) else nth_error l j.
Proof.
  revert i j; induction l as [|h t IH]; intros i j; simpl.
  - destruct (i =? j); destruct i, j; reflexivity.
  - destruct i, j; simpl; try reflexivity. apply IH.
Qed.
Lemma length_set_nth {X} (l: list X) i x : length (set_nth l i x) = length l.
Proof. revert i; induction l; intros [|i]; simpl; auto. Qed.

Lemma sched_step_good init st i : Good init st -> Good init (sched_step st i).
Proof.
  intros (HI & HL & HP). destruct st as [pool c]. simpl in *. unfold sched_step.
  destruct (nth_error pool i) as [p|] eqn:Hp; [|split; [exact HI | split; [exact HL | exact HP]]].
  destruct (HP i p Hp) as (Hwf & p0 & Hp0 & Hpure).
  pose proof (step_ok p c HI Hwf) as Hs. destruct (step p c) as [p' c']. destruct Hs as (HI' & Hwf' & Hpure').
  split; [exact HI'|]. split; [simpl; rewrite length_set_nth; exact HL|].
  simpl. intros j q Hq. rewrite nth_error_set_nth in Hq. destruct (Nat.eqb_spec i j) as [->|Hne].
  - rewrite Hp in Hq. injection Hq as <-. split; [exact Hwf'|]. exists p0. split; [exact Hp0 | congruence].
  - apply (HP j q Hq).
Qed.

Theorem schedule_independent (init: list prog) (c0: cache) (sched: list nat) :
  Inv c0 -> (forall p, In p init -> wf p) ->
  let st := run_sched sched (init, c0) in
  Inv (snd st) /\
  forall i a, nth_error (fst st) i = Some (Ret a) -> exists p0, nth_error init i = Some p0 /\ a = pure p0.
Proof.
  intros HI Hwf.
  assert (G0: Good init (init, c0)).
  { repeat split; simpl; auto.
    - apply Hwf. eapply nth_error_In; eauto.
    - exists p; auto. }
  assert (G: forall s st, Good init st -> Good init (fold_left sched_step s st)).
  { induction s as [|i s IH]; intros st Hst; simpl; [exact Hst | apply IH, sched_step_good, Hst]. }
  specialize (G sched _ G0). destruct G as (HI' & _ & HP). split; [exact HI'|].
  intros i a Hn. destruct (HP i _ Hn) as (_ & p0 & Hp0 & Hpure). exists p0. split; [exact Hp0 | exact Hpure].
Qed.
End Memo.
Print Assumptions schedule_independent.
